(* C05 (renderings) — the theorem: the encoder's output is one of the legal renderings (Spec/Render.v) of
   the message, up to the one thing the encoder normalises (the order of `mandatory` key lists); and,
   through C04 (every legal rendering is accepted), a second route to "the reference reads it back". *)
From Coq Require Import ZArith ZifyBool ZifyN ZifyNat Permutation.
From DNS Require Import Model.Dec Model.Enc Spec.Names Spec.Iana Spec.Wire Spec.Render
  Proofs.ListN Proofs.EncLimits Proofs.SvcbSet Proofs.SvcbRound
  Proofs.RtBase Proofs.RtPrim Proofs.RtFields Proofs.RtRecord Proofs.RtSpecial Proofs.RtApl Proofs.RtMsg Proofs.C05
  Proofs.RenderTop
  Proofs.EncRenderBase Proofs.EncRenderFields Proofs.EncRenderMsg Proofs.EncRenderSpecial.
Local Open Scope N_scope.
Ltac Zify.zify_post_hook ::= Z.div_mod_to_equations.

(* the message with every `mandatory` key list sorted; everything else as it is *)
Definition norm_dns (m : dns) : dns := norm_gen norm_rr m.

Theorem output_is_legal_rendering (m : dns) (b : bytes) :
  dns_wf m = true -> enc_Dns m = Ok b -> renders_dns (norm_dns m) b.
Proof.
  apply (output_renders_gen rr_wf norm_rr).
  - intros r Hr. exact (proj1 (rt_rr false r Hr)).
  - intros r Hr. apply ren_rr, Hr.
Qed.

(* a message without SVCB/HTTPS records is its own normal form *)
Lemma norm_rr_plain (r : rr) : plain_wf r = true -> norm_rr r = r.
Proof.
  intro H. apply norm_rr_fields. intros p t ps Ed. unfold plain_wf in H.
  destruct (lookup (r_type r) enc_dispatch) as [[ec f|sp]|]; rewrite ?Ed in H;
    rewrite andb_false_r in H; discriminate.
Qed.

(* ================================================================================================ *)
(* The normal form is well formed and equivalent                                                     *)
(* ================================================================================================ *)
Lemma param_wfb_norm (p : svcparam) : param_wfb p = true -> param_wfb (norm p) = true.
Proof.
  destruct p as [keys|ids| |port|h|cl|h|n d| ]; cbn [norm param_wfb]; intro H; try exact H.
  rewrite forallb_forall in *. intros k Hk. apply H. apply sort_keys_In. exact Hk.
Qed.

Lemma keys_lt_norm (p : svcparam) (l : list svcparam) :
  forallb (fun q => param_key p <? param_key q) (map norm l) = forallb (fun q => param_key p <? param_key q) l.
Proof. induction l as [|q l IH]; cbn [map forallb]; [reflexivity|]. rewrite norm_key, IH. reflexivity. Qed.

Lemma keys_sortedb_norm (ps : list svcparam) : keys_sortedb (map norm ps) = keys_sortedb ps.
Proof.
  induction ps as [|p r IH]; cbn [map keys_sortedb]; [reflexivity|].
  rewrite norm_key, keys_lt_norm, IH. reflexivity.
Qed.

Lemma svcb_rr_wf_norm (r : rr) : svcb_rr_wf r = true -> svcb_rr_wf (norm_rr r) = true.
Proof.
  unfold svcb_rr_wf, rr_common_wf, norm_rr. cbn [r_type r_name r_class r_ttl r_data].
  intro H. apply andb_true_iff in H. destruct H as [H Hd]. rewrite H. cbn [andb].
  destruct (r_data r) as [| | |prio target params]; try discriminate. cbn [norm_rdata].
  apply andb_true_iff in Hd. destruct Hd as [Hd Halias]. apply andb_true_iff in Hd. destruct Hd as [Hd Hks].
  apply andb_true_iff in Hd. destruct Hd as [Hd Hpw]. rewrite Hd. cbn [andb].
  rewrite keys_sortedb_norm, Hks, andb_true_r.
  apply andb_true_iff. split.
  - rewrite forallb_forall in *. intros q Hq. apply in_map_iff in Hq. destruct Hq as (p & <- & Hp).
    apply param_wfb_norm, Hpw, Hp.
  - destruct params; exact Halias.
Qed.

Lemma rr_wf_norm (r : rr) : rr_wf r = true -> rr_wf (norm_rr r) = true.
Proof.
  intro H. pose proof H as H0. unfold rr_wf in H |- *. change (r_type (norm_rr r)) with (r_type r).
  destruct (lookup (r_type r) enc_dispatch) as [[ec f|[| | |]]|] eqn:El; try discriminate.
  - rewrite (norm_rr_plain r H). exact H.
  - assert (norm_rr r = r) as ->; [|exact H].
    apply norm_rr_fields. intros p t ps Ed. unfold opt_rr_wf in H. rewrite Ed in H.
    rewrite andb_false_r in H. discriminate.
  - assert (norm_rr r = r) as ->; [|exact H].
    apply norm_rr_fields. intros p t ps Ed. unfold apl_rr_wf in H. rewrite Ed in H.
    rewrite andb_false_r in H. discriminate.
  - apply svcb_rr_wf_norm, H.
  - apply svcb_rr_wf_norm, H.
Qed.

Lemma forallb_map_norm (l : list rr) : forallb rr_wf l = true -> forallb rr_wf (map norm_rr l) = true.
Proof.
  rewrite !forallb_forall. intros H x Hx. apply in_map_iff in Hx. destruct Hx as (r & <- & Hr).
  apply rr_wf_norm, H, Hr.
Qed.

Lemma lenN_map {A B} (f : A -> B) (l : list A) : lenN (map f l) = lenN l.
Proof. unfold lenN. rewrite map_length. reflexivity. Qed.

Theorem norm_dns_wf (m : dns) : dns_wf m = true -> dns_wf (norm_dns m) = true.
Proof.
  unfold dns_wf, dns_wf_gen, norm_dns, norm_gen. cbn [m_id m_flags m_qd m_an m_ns m_ar].
  rewrite !lenN_map. intro H. rewrite !andb_true_iff in H.
  destruct H as [[[[[[[[[H1 H2] H3] H4] H5] H6] H7] H8] H9] H10].
  rewrite H1, H2, H3, (forallb_map_norm _ H4), (forallb_map_norm _ H5), (forallb_map_norm _ H6), H7, H8, H9, H10.
  reflexivity.
Qed.

Lemma rdata_eqv_norm_l (d : rdata) : rdata_eqv (norm_rdata d) d.
Proof.
  destruct d as [vs| | |prio target ps]; cbn [norm_rdata rdata_eqv]; try reflexivity.
  - unfold fvs_eqv. induction vs as [|v vs IH]; constructor; [apply fv_eqv_refl|exact IH].
  - split; [reflexivity|]. split; [apply ListN.name_eqb_refl|].
    rewrite map_map. apply map_ext. intro p. apply norm_idem.
Qed.

Lemma rr_eqv_norm_l (r : rr) : rr_eqv (norm_rr r) r.
Proof.
  unfold rr_eqv, norm_rr. cbn [r_type r_name r_class r_ttl r_data].
  split; [reflexivity|]. split; [apply ListN.name_eqb_refl|]. split; [reflexivity|]. split; [reflexivity|].
  apply rdata_eqv_norm_l.
Qed.

Lemma question_eqv_refl (q : Values.question) : question_eqv q q.
Proof. split; [apply ListN.name_eqb_refl|]. split; reflexivity. Qed.

Theorem norm_dns_eqv (m : dns) : dns_eqv (norm_dns m) m.
Proof.
  unfold dns_eqv, norm_dns, norm_gen. cbn [m_id m_flags m_qd m_an m_ns m_ar].
  assert (forall l : list rr, Forall2 rr_eqv (map norm_rr l) l) as HS.
  { induction l as [|r l IH]; cbn [map]; constructor; [apply rr_eqv_norm_l|exact IH]. }
  split; [reflexivity|]. split; [reflexivity|].
  split; [induction (m_qd m) as [|q l IH]; constructor; [apply question_eqv_refl|exact IH]|].
  split; [apply HS|]. split; apply HS.
Qed.

(* equivalence with the normal form is equivalence with the message *)
Lemma rdata_eqv_norm_r (d' d : rdata) : rdata_eqv d' (norm_rdata d) -> rdata_eqv d' d.
Proof.
  destruct d as [vs| | |prio target ps]; cbn [norm_rdata]; try (intro H; exact H).
  destruct d' as [vs'| | |prio' target' ps']; cbn [rdata_eqv]; try discriminate.
  intros (H1 & H2 & H3). split; [exact H1|]. split; [exact H2|].
  rewrite H3, map_map. apply map_ext. intro p. apply norm_idem.
Qed.

Lemma rr_eqv_norm_r (r' r : rr) : rr_eqv r' (norm_rr r) -> rr_eqv r' r.
Proof.
  unfold rr_eqv, norm_rr. cbn [r_type r_name r_class r_ttl r_data].
  intros (H1 & H2 & H3 & H4 & H5). split; [exact H1|]. split; [exact H2|]. split; [exact H3|].
  split; [exact H4|]. apply rdata_eqv_norm_r, H5.
Qed.

Lemma section_eqv_norm_r (l : list rr) : forall l' : list rr,
  Forall2 rr_eqv l' (map norm_rr l) -> Forall2 rr_eqv l' l.
Proof.
  induction l as [|r l IH]; intros l' H; inversion H; subst; constructor.
  - apply rr_eqv_norm_r. assumption.
  - apply IH. assumption.
Qed.

Lemma dns_eqv_norm_r (m' m : dns) : dns_eqv m' (norm_dns m) -> dns_eqv m' m.
Proof.
  unfold dns_eqv, norm_dns, norm_gen. cbn [m_id m_flags m_qd m_an m_ns m_ar].
  intros (H1 & H2 & H3 & H4 & H5 & H6). split; [exact H1|]. split; [exact H2|]. split; [exact H3|].
  split; [apply section_eqv_norm_r, H4|]. split; apply section_eqv_norm_r; assumption.
Qed.

(* ================================================================================================ *)
(* Second route: output is a legal rendering (here) + legal renderings are accepted (C04)            *)
(* ================================================================================================ *)
Theorem reference_reads_back_via_render (m : dns) (b : bytes) :
  dns_wf m = true -> enc_Dns m = Ok b -> exists m', spec_Dns b = Some m' /\ dns_eqv m' m.
Proof.
  intros Hwf Henc.
  destruct (render_accepted (norm_dns m) b (norm_dns_wf m Hwf) (output_is_legal_rendering m b Hwf Henc)
              (enc_Dns_size m b Henc)) as (m' & Hs & He).
  exists m'. split; [exact Hs|]. apply dns_eqv_norm_r, He.
Qed.

(* ================================================================================================ *)
(* The normal form, spelled out                                                                      *)
(* ================================================================================================ *)
Lemma norm_dns_spec (m : dns) :
  norm_dns m = {| m_id := m_id m; m_flags := m_flags m; m_qd := m_qd m;
                  m_an := map norm_rr (m_an m); m_ns := map norm_rr (m_ns m); m_ar := map norm_rr (m_ar m) |}.
Proof. reflexivity. Qed.
Lemma norm_rr_spec (r : rr) :
  norm_rr r = {| r_type := r_type r; r_name := r_name r; r_class := r_class r; r_ttl := r_ttl r;
                 r_data := match r_data r with
                           | RSvcb prio target ps => RSvcb prio target (map norm ps)
                           | _ => r_data r
                           end |}.
Proof. reflexivity. Qed.
Lemma norm_param_spec (p : svcparam) :
  norm p = match p with PMandatory keys => PMandatory (sort_keys keys) | _ => p end.
Proof. reflexivity. Qed.

Lemma norm_section_plain (l : list rr) : forallb plain_wf l = true -> map norm_rr l = l.
Proof.
  induction l as [|r l IH]; cbn [forallb map]; intro H; [reflexivity|].
  apply andb_true_iff in H. destruct H as [H1 H2]. rewrite (norm_rr_plain r H1), (IH H2). reflexivity.
Qed.

Theorem norm_dns_plain (m : dns) : dns_wf_plain m = true -> norm_dns m = m.
Proof.
  intro H. destruct (dns_wf_gen_inv plain_wf m H) as (_ & _ & _ & Ha & Hn & Hr & _).
  rewrite norm_dns_spec, (norm_section_plain _ Ha), (norm_section_plain _ Hn), (norm_section_plain _ Hr).
  destruct m; reflexivity.
Qed.

(* element level, in explicit form *)
Theorem name_renders_wf (n : name) (st : est) (mask : list bool) (st' : est) :
  name_wf n = true -> NameLayer.InvM st mask -> enc_domain_name n st = EOk tt st' ->
  exists w : bytes, e_buf st' = e_buf st ++ w /\
    forall pre : bytes, length pre = length (e_buf st) -> NameLayer.agree mask (e_buf st) pre ->
      renders_name pre n w.
Proof. intros Hn HI E. exact (name_renders st mask n st' HI (name_wf_ok n Hn) E). Qed.

Theorem rr_renders (r : rr) (st : est) (mask : list bool) (st' : est) :
  rr_wf r = true -> NameLayer.InvM st mask -> enc_rr r st = EOk tt st' ->
  exists w : bytes, e_buf st' = e_buf st ++ w /\
    forall pre : bytes, length pre = length (e_buf st) -> NameLayer.agree mask (e_buf st) pre ->
      renders_rr pre (norm_rr r) w.
Proof. intros Hr HI E. exact (ren_rr r Hr st mask st' HI E). Qed.
