(* C06, name layer: [enc_domain_name] from a state with the masked invariant. *)
From DNS Require Import Model.Enc Spec.Names Proofs.ListN Proofs.NameLayer Proofs.NameLoop.
Require Import ZArith ZifyBool ZifyN ZifyNat.
Local Open Scope N_scope.
Ltac Zify.zify_post_hook ::= Z.div_mod_to_equations.

Lemma expand_mono h : forall h' b o x, expand h b o = Some x -> (h <= h')%nat -> expand h' b o = Some x.
Proof.
  induction h as [|h IH]; intros h' b o x H Hle; rewrite expand_eq in H; rewrite expand_eq.
  - destruct (seg SEGFUEL b o) as [[[ls [t|]] e]|]; try discriminate. exact H.
  - destruct (seg SEGFUEL b o) as [[[ls [t|]] e]|]; try discriminate; [|exact H].
    destruct h' as [|h']; [lia|].
    destruct (expand h b t) as [x0|] eqn:E; [|discriminate].
    rewrite (IH h' b t x0 E) by lia. exact H.
Qed.

(* monotonicity in the ghost log *)
Lemma ptr_ok_mono log log' b' pt : (forall e, In e log -> In e log') -> ptr_ok log b' pt -> ptr_ok log' b' pt.
Proof.
  intros Hsub (H1 & H2 & p & n & Hin & Hr). split; [exact H1|]. split; [exact H2|].
  exists p, n. split; [apply Hsub; exact Hin|exact Hr].
Qed.
Lemma ptrs_ok_mono log log' b' l : (forall e, In e log -> In e log') ->
  Forall (ptr_ok log b') l -> Forall (ptr_ok log' b') l.
Proof. intros Hsub H. eapply Forall_impl; [|exact H]. intros pt. apply ptr_ok_mono. exact Hsub. Qed.
Lemma entry_ok_mono log log' b' e : (forall e, In e log -> In e log') -> entry_ok log b' e -> entry_ok log' b' e.
Proof.
  intros Hsub (x & H1 & H2 & H3 & H4 & p & n & Hin & Hr). exists x.
  split; [exact H1|]. split; [exact H2|]. split; [exact H3|]. split; [eapply ptrs_ok_mono; eassumption|].
  exists p, n. split; [apply Hsub; exact Hin|exact Hr].
Qed.
Lemma logged_ok_mono log log' b' e : (forall e, In e log -> In e log') -> logged_ok log b' e -> logged_ok log' b' e.
Proof.
  intros Hsub (x & H1 & H2 & H3 & H4). exists x.
  split; [exact H1|]. split; [exact H2|]. split; [exact H3|eapply ptrs_ok_mono; eassumption].
Qed.

Lemma Forall_label_ok_app a b : Forall label_ok (a ++ b) -> Forall label_ok a /\ Forall label_ok b.
Proof. apply Forall_app. Qed.

Lemma labels_total_fuel q n : Forall label_ok q -> labels_total q <= labels_total n -> name_wire_len n <= 255 ->
  (length q < SEGFUEL)%nat.
Proof.
  intros Hq Hle Hn. rewrite SEGFUEL_val. apply labels_count in Hq.
  unfold name_wire_len in Hn. unfold lenN in Hq. lia.
Qed.

Definition name_result (s : est) (mask : list bool) (n : name) (s' : est) (w : bytes) : Prop :=
  e_buf s' = e_buf s ++ w /\ 1 <= lenN w /\ lenN w <= name_wire_len n /\
  e_names s' = (lenN (e_buf s), n) :: e_names s /\
  InvM s' (mask ++ repeat true (length w)).

Section Main.
Variables (s : est) (mask : list bool) (n : name).
Hypothesis HInv : InvM s mask.
Hypothesis Hn : name_ok n.

Theorem enc_domain_name_spec :
  (exists s' w, enc_domain_name n s = EOk tt s' /\ name_result s mask n s' w) \/
  loop_fail s n (enc_domain_name n s).
Proof.
  destruct HInv as (HL & HB & HI). destruct Hn as [Hlab Hwire].
  set (P := lenN (e_buf s)).
  set (s0 := {| e_buf := e_buf s; e_idx := e_idx s; e_names := (P, n) :: e_names s |}).
  assert (Hlog : log_name n s = EOk tt s0) by reflexivity.
  unfold enc_domain_name. rewrite (ebind_ok _ _ _ _ _ Hlog).
  assert (Hsmall : idx_small (e_idx s0)).
  { intros k o d Hin. destruct (HB k o d Hin) as (H1 & H2 & _). split; assumption. }
  destruct (loop_shape n s0 [] Hsmall Hlab) as [(s' & Hrun & Hpost)|Hfail]; [left|right; exact Hfail].
  destruct Hpost as (n1 & n2 & tail & t & D & Hsplit & Hbuf & Hnames & Htail & HD & HN & HS & HIdx).
  cbn [e_buf e_idx e_names s0] in Hbuf, Hnames, HS, HIdx. fold P in HIdx.
  set (w := enc_labels n1 ++ tail) in *.
  set (log' := (P, n) :: e_names s) in *.
  assert (Hsub : forall e, In e (e_names s) -> In e log') by (intros e He; right; exact He).
  rewrite Hsplit in Hlab. destruct (Forall_label_ok_app _ _ Hlab) as [Hlab1 Hlab2].
  assert (Htot : labels_total n = labels_total n1 + labels_total n2) by (rewrite Hsplit; apply labels_total_app).
  assert (Hwlen : lenN w = labels_total n1 + lenN tail) by (unfold w; rewrite lenN_app, lenN_enc_labels; reflexivity).
  assert (Htl : 1 <= lenN tail /\ labels_total n1 + lenN tail <= name_wire_len n).
  { unfold name_wire_len. destruct t as [o|]; cbn [tail_ok] in Htail.
    - destruct Htail as [_ ->]. destruct (HS o eq_refl) as (d & _ & _ & Hne).
      destruct n2 as [|l2 r2]; [congruence|]. inversion Hlab2 as [|? ? [Hl2 _] _]; subst.
      cbn [labels_total] in Htot. unfold u16b, lenN. cbn [length]. lia.
    - subst tail. unfold lenN at 1 2. cbn [length]. lia. }
  exists s', w. split; [exact Hrun|].
  split; [exact Hbuf|]. split; [lia|]. split; [lia|]. split; [exact Hnames|].
  (* the invariant *)
  split; [rewrite Hbuf, !app_length, repeat_length; lia|].
  split.
  { intros k o d Hin. rewrite Hbuf, lenN_app. fold P.
    destruct (HIdx _ Hin) as [Hi|(k' & o' & Heq & [[]|[Ho Hp]])].
    - destruct (HB k o d Hi) as (H1 & H2 & H3). fold P in H3. split; [exact H1|]. split; [exact H2|lia].
    - inversion Heq; subst k' o' d. destruct (pos_in _ _ _ _ _ Hp) as (p & l & c & Hn1 & _ & Ho').
      split; [exact Ho|]. split; [exact HD|].
      rewrite Hn1 in Hwlen. rewrite labels_total_app in Hwlen. cbn [labels_total] in Hwlen. lia. }
  intros b' Hag. rewrite Hnames. fold log'.
  rewrite Hbuf in Hag.
  pose proof (agree_app _ _ _ _ _ HL Hag) as Hag0.
  destruct (HI b' Hag0) as [HIe HIl].
  destruct (agree_split _ _ _ _ HL Hag) as (b1 & rest0 & Hb' & Hb1).
  assert (HP : lenN b1 = P) by (unfold P, lenN; rewrite Hb1; reflexivity).
  (* expansion of every literally written suffix *)
  assert (Hexp : forall q pre, Forall label_ok q -> (length q < SEGFUEL)%nat ->
            b' = pre ++ enc_labels q ++ tail ++ rest0 -> P <= lenN pre ->
            exists x, expand (N.to_nat D) b' (lenN pre) = Some x /\ x_hops x = N.to_nat D /\
                      name_eqb (q ++ n2) (x_name x) = true /\ Forall (ptr_ok log' b') (x_ptrs x)).
  { intros q pre Hq Hfuel Hshape Hpre.
    pose proof (seg_literal q SEGFUEL pre tail rest0 t Hq Htail Hfuel) as Hseg. rewrite <- Hshape in Hseg.
    destruct t as [o|].
    - destruct (HS o eq_refl) as (d & Hlk & -> & _).
      destruct (idx_lookup_in _ _ _ Hlk) as (k & Hin & Hk).
      destruct (HB k o d Hin) as (Ho1 & Hd1 & Ho2). fold P in Ho2.
      destruct (HIe _ Hin) as (xo & Hxo & Hhops & Hnm & Hptrs & p0 & n0 & Hin0 & Hreach).
      cbn [fst snd] in Hxo, Hhops, Hnm, Hreach.
      rewrite N.add_1_r, N2Nat.inj_succ. rewrite expand_eq, Hseg, Hxo.
      eexists. split; [reflexivity|]. cbn [x_name x_hops x_ptrs].
      split; [rewrite Hhops; reflexivity|].
      split; [apply name_eqb_app; eapply name_eqb_trans; eassumption|].
      constructor; [|eapply ptrs_ok_mono; eassumption].
      cbn [tail_ok] in Htail. destruct Htail as [_ ->].
      split; [cbn [fst snd]; unfold u16b, lenN at 3; cbn [length]; lia|].
      split; [exact Ho1|]. exists p0, n0. split; [apply Hsub; exact Hin0|exact Hreach].
    - destruct (HN eq_refl) as [-> ->]. rewrite expand_eq, Hseg.
      eexists. split; [reflexivity|]. cbn [x_name x_hops x_ptrs].
      split; [reflexivity|]. split; [rewrite app_nil_r; apply name_eqb_refl|constructor]. }
  split.
  - (* index entries *)
    intros e He. destruct (HIdx _ He) as [Hi|(k & o & -> & [[]|[Ho Hp]])].
    + eapply entry_ok_mono; [exact Hsub|]. apply HIe. exact Hi.
    + destruct (pos_in _ _ _ _ _ Hp) as (p & l & c & Hn1 & -> & ->).
      rewrite Hn1 in Hlab1. destruct (Forall_label_ok_app _ _ Hlab1) as [Hp1 Hq1].
      assert (Hshape : b' = (b1 ++ enc_labels p) ++ enc_labels (l :: c) ++ tail ++ rest0).
      { rewrite Hb'. unfold w. rewrite Hn1, enc_labels_app. norm_app. reflexivity. }
      assert (Hpre : lenN (b1 ++ enc_labels p) = P + labels_total p)
        by (rewrite lenN_app, lenN_enc_labels, HP; reflexivity).
      assert (Hfuel : (length (l :: c) < SEGFUEL)%nat).
      { apply (labels_total_fuel _ n); [exact Hq1| |exact Hwire].
        rewrite Htot, Hn1, labels_total_app. lia. }
      destruct (Hexp (l :: c) (b1 ++ enc_labels p) Hq1 Hfuel Hshape ltac:(lia)) as (x & Hx & Hh & Hnm & Hptr).
      rewrite Hpre in Hx.
      exists x. cbn [fst snd].
      split; [exact Hx|]. split; [exact Hh|]. split; [exact Hnm|]. split; [exact Hptr|].
      exists P, n. split; [left; reflexivity|].
      pose proof (Forall_inv Hq1) as [Hl1 [Hl2 _]].
      rewrite <- Hpre, <- HP.
      replace b' with (b1 ++ enc_labels p ++ lenN l :: (l ++ enc_labels c ++ tail ++ rest0))
        by (rewrite Hshape; cbn [enc_labels]; norm_app; reflexivity).
      apply lit_reach_literal; assumption.
  - (* logged names *)
    intros e [<-|He].
    + assert (Hshape : b' = b1 ++ enc_labels n1 ++ tail ++ rest0).
      { rewrite Hb'. unfold w. norm_app. reflexivity. }
      assert (Hfuel : (length n1 < SEGFUEL)%nat).
      { apply (labels_total_fuel _ n); [exact Hlab1| |exact Hwire]. lia. }
      destruct (Hexp n1 b1 Hlab1 Hfuel Hshape ltac:(lia)) as (x & Hx & Hh & Hnm & Hptr).
      rewrite HP in Hx. exists x. cbn [fst snd].
      split; [apply (expand_mono _ _ _ _ _ Hx); lia|]. split; [lia|].
      split; [rewrite Hsplit; exact Hnm|exact Hptr].
    + eapply logged_ok_mono; [exact Hsub|]. apply HIl. exact He.
Qed.

(* the only possible failure is the 65535-octet message limit *)
Theorem enc_domain_name_ok :
  lenN (e_buf s) + name_wire_len n <= 65536 ->
  exists s' w, enc_domain_name n s = EOk tt s' /\ name_result s mask n s' w.
Proof.
  intros Hsz. destruct enc_domain_name_spec as [H|(k & _ & H1 & _ & H2)]; [exact H|lia].
Qed.
End Main.
