(* Basic facts for reasoning about the decoder model: N-indexed list operations, the generated
   constants the name reader depends on, octet-level bit facts (finite tables), well-formed decoder
   states, and exact characterisations of [read] and [u8]. *)
From Coq Require Import ZifyBool ZifyN ZifyNat.
From DNS Require Import Model.Dec.
Local Open Scope N_scope.

(* ---- generated constants: these lemmas break when the Rust source changes ---- *)
Lemma MAXREC_val : DOMAIN_NAME_MAX_RECURSION = 16. Proof. reflexivity. Qed.
Lemma MAXLEN_val : DOMAIN_NAME_MAX_LENGTH = 255. Proof. reflexivity. Qed.
Lemma LABELMAX_val : LABEL_MAX_LENGTH = 64. Proof. reflexivity. Qed.
Lemma OP_read_val : OP_read = CLe. Proof. reflexivity. Qed.
Lemma OP_dec_maxrec_val : OP_dec_maxrec = CGt. Proof. reflexivity. Qed.
Lemma OP_check_label_val : OP_check_label = CLt. Proof. reflexivity. Qed.
Lemma OP_append_label_val : OP_append_label = CLe. Proof. reflexivity. Qed.
Lemma CBITS_val : DEC_COMPRESSION_BITS = 192. Proof. reflexivity. Qed.
Lemma CBITS_REV_val : DEC_COMPRESSION_BITS_REV = 63. Proof. reflexivity. Qed.

Definition WFMAX : N := 4611686018427387904.
Lemma WFMAX_val : WFMAX = 2 ^ 62. Proof. reflexivity. Qed.

(* ---- N-indexed list operations ---- *)
Section Lists.
Context {A : Type}.
Implicit Types l : list A.

Lemma lenN_nil : lenN (@nil A) = 0. Proof. reflexivity. Qed.
Lemma lenN_cons x l : lenN (x :: l) = lenN l + 1.
Proof. unfold lenN. cbn [length]. lia. Qed.
Lemma lenN_app l1 l2 : lenN (l1 ++ l2) = lenN l1 + lenN l2.
Proof. unfold lenN. rewrite app_length. lia. Qed.
Lemma lenN_dropN n l : lenN (dropN n l) = lenN l - n.
Proof. unfold lenN, dropN. rewrite skipn_length. lia. Qed.
Lemma lenN_takeN n l : lenN (takeN n l) = N.min n (lenN l).
Proof. unfold lenN, takeN. rewrite firstn_length. lia. Qed.

Lemma skipn_skipn (m n : nat) l : skipn m (skipn n l) = skipn (n + m) l.
Proof.
  revert l. induction n as [|n IH]; intro l; [reflexivity|].
  destruct l as [|x l]; [destruct m; reflexivity|]. cbn [skipn Nat.add]. apply IH.
Qed.
Lemma dropN_dropN m n l : dropN m (dropN n l) = dropN (n + m) l.
Proof. unfold dropN. rewrite skipn_skipn. f_equal. lia. Qed.
Lemma dropN_0 l : dropN 0 l = l. Proof. reflexivity. Qed.
Lemma dropN_takeN m n l : dropN m (takeN n l) = takeN (n - m) (dropN m l).
Proof. unfold dropN, takeN. rewrite skipn_firstn_comm. f_equal. lia. Qed.
Lemma takeN_takeN m n l : m <= n -> takeN m (takeN n l) = takeN m l.
Proof.
  intro H. unfold takeN. rewrite firstn_firstn. f_equal. lia.
Qed.
Lemma takeN_all n l : lenN l <= n -> takeN n l = l.
Proof. intro H. unfold takeN. apply firstn_all2. unfold lenN in H. lia. Qed.
Lemma dropN_all n l : lenN l <= n -> dropN n l = [].
Proof. intro H. unfold dropN. apply skipn_all2. unfold lenN in H. lia. Qed.

Lemma nth_opt_skipn (a i : nat) l : nth_opt i (skipn a l) = nth_opt (a + i) l.
Proof.
  revert l. induction a as [|a IH]; intro l; [reflexivity|].
  destruct l as [|x l]; [destruct i; reflexivity|]. cbn [skipn Nat.add nth_opt]. apply IH.
Qed.
Lemma nth_opt_firstn (n i : nat) l : (i < n)%nat -> nth_opt i (firstn n l) = nth_opt i l.
Proof.
  revert i l. induction n as [|n IH]; intros i l H; [lia|].
  destruct l as [|x l]; [reflexivity|]. destruct i as [|i]; [reflexivity|].
  cbn [firstn nth_opt]. apply IH. lia.
Qed.
Lemma nth_opt_none (i : nat) l : (length l <= i)%nat -> nth_opt i l = None.
Proof.
  revert i. induction l as [|x l IH]; intros i H; [destruct i; reflexivity|].
  destruct i as [|i]; cbn [length] in H; [lia|]. cbn [nth_opt]. apply IH. lia.
Qed.
Lemma nth_opt_some (i : nat) l : (i < length l)%nat -> exists x, nth_opt i l = Some x.
Proof.
  revert i. induction l as [|x l IH]; intros i H; cbn [length] in H; [lia|].
  destruct i as [|i]; [exists x; reflexivity|]. cbn [nth_opt]. apply IH. lia.
Qed.
Lemma nth_opt_In (i : nat) l x : nth_opt i l = Some x -> In x l.
Proof.
  revert i. induction l as [|y l IH]; intros i H; [destruct i; discriminate|].
  destruct i as [|i]; cbn [nth_opt] in H; [injection H as ->; left; reflexivity|].
  right. eapply IH; eauto.
Qed.

Lemma nthN_dropN a i l : nthN i (dropN a l) = nthN (a + i) l.
Proof. unfold nthN, dropN. rewrite nth_opt_skipn. f_equal. lia. Qed.
Lemma nthN_takeN n i l : i < n -> nthN i (takeN n l) = nthN i l.
Proof. intro H. unfold nthN, takeN. apply nth_opt_firstn. lia. Qed.
Lemma nthN_none i l : lenN l <= i -> nthN i l = None.
Proof. intro H. unfold nthN. apply nth_opt_none. unfold lenN in H. lia. Qed.
Lemma nthN_some i l : i < lenN l -> exists x, nthN i l = Some x.
Proof. intro H. unfold nthN. apply nth_opt_some. unfold lenN in H. lia. Qed.
Lemma nthN_In i l x : nthN i l = Some x -> In x l.
Proof. apply nth_opt_In. Qed.
Lemma nthN_lt i l x : nthN i l = Some x -> i < lenN l.
Proof.
  intro H. destruct (N.lt_ge_cases i (lenN l)) as [?|Hge]; [assumption|].
  rewrite (nthN_none _ _ Hge) in H. discriminate.
Qed.

(* the head of [takeN 1] is the element at index 0 *)
Lemma takeN_1 l : takeN 1 l = match nthN 0 l with Some x => [x] | None => [] end.
Proof. destruct l as [|x l]; reflexivity. Qed.
End Lists.

Lemma Forall_firstn {A} (P : A -> Prop) n (l : list A) : Forall P l -> Forall P (firstn n l).
Proof.
  intro H. revert n. induction H as [|x l Hx Hl IH]; intro n; destruct n; cbn [firstn]; auto.
Qed.
Lemma Forall_skipn {A} (P : A -> Prop) n (l : list A) : Forall P l -> Forall P (skipn n l).
Proof.
  intro H. revert n. induction H as [|x l Hx Hl IH]; intro n; destruct n; cbn [skipn]; auto.
Qed.
Lemma bytes_ok_takeN n l : bytes_ok l -> bytes_ok (takeN n l).
Proof. apply Forall_firstn. Qed.
Lemma bytes_ok_dropN n l : bytes_ok l -> bytes_ok (dropN n l).
Proof. apply Forall_skipn. Qed.
Lemma bytes_ok_nth i l x : bytes_ok l -> nthN i l = Some x -> x < 256.
Proof. intros H Hn. apply nthN_In in Hn. unfold bytes_ok in H. rewrite Forall_forall in H. apply H. exact Hn. Qed.

Lemma existsb_eqb_In t (l : list N) : existsb (N.eqb t) l = true <-> In t l.
Proof.
  rewrite existsb_exists. split.
  - intros (x & Hx & He). apply N.eqb_eq in He. subst. exact Hx.
  - intro H. exists t. split; [exact H|apply N.eqb_refl].
Qed.

(* ---- octet-level facts: finite tables lifted with forallb_forall ---- *)
Fixpoint nrange (n : nat) : list N :=
  match n with O => [] | S k => nrange k ++ [N.of_nat k] end.
Lemma nrange_In (n : nat) x : (N.to_nat x < n)%nat -> In x (nrange n).
Proof.
  induction n as [|n IH]; intro H; [lia|]. cbn [nrange]. apply in_or_app.
  destruct (PeanoNat.Nat.eq_dec (N.to_nat x) n) as [E|E].
  - right. left. lia.
  - left. apply IH. lia.
Qed.

Definition compressed_ok (l : N) : bool := Bool.eqb (is_compressed l) (192 <=? l).
Lemma compressed_tab : forallb compressed_ok (nrange 256) = true.
Proof. vm_compute. reflexivity. Qed.
Lemma is_compressed_byte l : l < 256 -> is_compressed l = (192 <=? l).
Proof.
  intro H. pose proof compressed_tab as T. rewrite forallb_forall in T.
  assert (I1 : In l (nrange 256)) by (apply nrange_In; lia).
  specialize (T _ I1). unfold compressed_ok in T.
  apply Bool.eqb_prop in T. exact T.
Qed.

Definition ptr_ok1 (l1 : N) : bool :=
  forallb (fun l2 => ptr_offset (192 + l1) l2 =? l1 * 256 + l2) (nrange 256).
Lemma ptr_tab : forallb ptr_ok1 (nrange 64) = true.
Proof. vm_compute. reflexivity. Qed.
Lemma ptr_offset_byte l1 l2 : 192 <= l1 -> l1 < 256 -> l2 < 256 ->
  ptr_offset l1 l2 = (l1 - 192) * 256 + l2.
Proof.
  intros H1 H2 H3. pose proof ptr_tab as T. rewrite forallb_forall in T.
  assert (I1 : In (l1 - 192) (nrange 64)) by (apply nrange_In; lia).
  assert (I2 : In l2 (nrange 256)) by (apply nrange_In; lia).
  specialize (T _ I1). unfold ptr_ok1 in T.
  rewrite forallb_forall in T. specialize (T _ I2). cbv beta in T.
  apply N.eqb_eq in T. replace (192 + (l1 - 192)) with l1 in T by lia. exact T.
Qed.

(* ---- well-formed decoder states ---- *)
Definition dst_wf (s : dst) : Prop :=
  lenN (d_rest s) = d_len s - d_off s /\ d_len s < WFMAX /\ d_off s < WFMAX /\ bytes_ok (d_rest s).

(* the state after consuming [n] octets *)
Definition adv (n : N) (s : dst) : dst :=
  {| d_rest := dropN n (d_rest s); d_off := d_off s + n; d_len := d_len s; d_cost := d_cost s + n |}.

Lemma adv_adv m n s : adv m (adv n s) = adv (n + m) s.
Proof.
  unfold adv. cbn [d_rest d_off d_len d_cost]. rewrite dropN_dropN. f_equal; lia.
Qed.
Lemma adv_wf n s : dst_wf s -> d_off s + n <= d_len s -> dst_wf (adv n s).
Proof.
  intros (H1 & H2 & H3 & H4) H. unfold dst_wf, adv. cbn [d_rest d_off d_len d_cost].
  rewrite lenN_dropN. split; [lia|]. split; [exact H2|]. split; [lia|]. apply bytes_ok_dropN. exact H4.
Qed.

Lemma jump_wf main off c : bytes_ok main -> lenN main < WFMAX -> off < WFMAX -> dst_wf (jump main off c).
Proof.
  intros Hb Hl Ho. unfold dst_wf, jump. cbn [d_rest d_off d_len d_cost].
  rewrite lenN_dropN. split; [reflexivity|]. split; [exact Hl|]. split; [exact Ho|].
  apply bytes_ok_dropN. exact Hb.
Qed.
Lemma mk_main_wf b : bytes_ok b -> lenN b < WFMAX -> dst_wf (mk_main b).
Proof.
  intros Hb Hl. unfold dst_wf, mk_main. cbn [d_rest d_off d_len d_cost].
  split; [lia|]. split; [exact Hl|]. split; [unfold WFMAX; lia|exact Hb].
Qed.
Lemma adv_jump main off c n : adv n (jump main off c) = jump main (off + n) (c + n).
Proof. unfold adv, jump. cbn [d_rest d_off d_len d_cost]. rewrite dropN_dropN. reflexivity. Qed.

(* ---- read and u8, exactly ---- *)
Lemma read_wf n s : dst_wf s -> n < 256 ->
  read n s = if d_off s + n <=? d_len s then DOk (takeN n (d_rest s)) (adv n s)
             else DErr (ENotEnoughBytes, [d_len s; d_off s + n]) (d_cost s).
Proof.
  intros (H1 & H2 & H3 & H4) Hn. unfold read. cbv zeta.
  destruct (POW64 <=? d_off s + n) eqn:E.
  - unfold POW64, WFMAX in *. lia.
  - rewrite OP_read_val. cbn [cmp_apply]. reflexivity.
Qed.

Lemma read_len n s : dst_wf s -> d_off s + n <= d_len s -> lenN (takeN n (d_rest s)) = n.
Proof. intros (H1 & _) H. rewrite lenN_takeN. lia. Qed.

Lemma u8_wf s : dst_wf s ->
  (d_off s + 1 <= d_len s /\ exists b, nthN 0 (d_rest s) = Some b /\ b < 256 /\ u8 s = DOk b (adv 1 s)) \/
  (d_len s < d_off s + 1 /\ u8 s = DErr (ENotEnoughBytes, [d_len s; d_off s + 1]) (d_cost s)).
Proof.
  intro W. pose proof W as (H1 & H2 & H3 & H4). unfold u8, bind.
  rewrite (read_wf 1 s W) by lia.
  destruct (d_off s + 1 <=? d_len s) eqn:E.
  - left. split; [lia|].
    destruct (nthN_some 0 (d_rest s)) as [b Hb]; [lia|].
    exists b. split; [exact Hb|]. split; [eapply bytes_ok_nth; eauto|].
    rewrite takeN_1, Hb. reflexivity.
  - right. split; [lia|reflexivity].
Qed.
