(* C07 — the work of the decoder is linear in the input.
   [costly w m]: on every well-formed state whose cursor lies inside its window, a value of [m]
   leaves a well-formed state with the same window, the cursor still inside the window, and the
   octet counter advanced by at most [w] per octet consumed; an error value carries a counter
   advanced by at most [w] per octet that was left in the window, plus 544 (one failing name).
   Panic and fuel outcomes are excluded separately (Proofs/DecTotal.v).
   This file: the monad, the primitive readers, names, sub-windows and loops. *)
From Coq Require Import ZifyBool ZifyN ZifyNat.
From DNS Require Import Model.Dec Proofs.DecBase Proofs.DecName Proofs.DecNameSpec Proofs.DecNameSound
  Proofs.DecNameCyclic Proofs.DecNameComplete Proofs.DecSafe Proofs.DecTotal Proofs.Frame.
Local Open Scope N_scope.

Definition cat {A} (w : N) (m : DM A) (s : dst) : Prop :=
  match m s with
  | DOk _ s' => dst_wf s' /\ d_len s' = d_len s /\ d_off s <= d_off s' /\ d_off s' <= d_len s /\
                d_cost s' <= d_cost s + w * (d_off s' - d_off s)
  | DErr _ c => c <= d_cost s + w * (d_len s - d_off s) + 544
  | DPanic _ => True
  | DFuel => True
  end.
Definition costly {A} (w : N) (m : DM A) : Prop :=
  forall s : dst, dst_wf s -> d_off s <= d_len s -> cat w m s.

(* ---- arithmetic ---- *)
Lemma tele_eq (w a b c : N) : a <= b -> b <= c -> w * (c - a) = w * (b - a) + w * (c - b).
Proof. intros H1 H2. rewrite <- N.mul_add_distr_l. f_equal. lia. Qed.
Lemma tele_ok (w c0 c1 c2 a b c : N) : a <= b -> b <= c ->
  c1 <= c0 + w * (b - a) -> c2 <= c1 + w * (c - b) -> c2 <= c0 + w * (c - a).
Proof. intros H1 H2 H3 H4. rewrite (tele_eq w a b c H1 H2). lia. Qed.
Lemma tele_err (w c0 c1 c2 a b c e : N) : a <= b -> b <= c ->
  c1 <= c0 + w * (b - a) -> c2 <= c1 + w * (c - b) + e -> c2 <= c0 + w * (c - a) + e.
Proof. intros H1 H2 H3 H4. rewrite (tele_eq w a b c H1 H2). lia. Qed.
Lemma mul_mono (w w' x y : N) : w <= w' -> x <= y -> w * x <= w' * y.
Proof. intros H1 H2. apply N.mul_le_mono; assumption. Qed.
Lemma le_mul1 (w x : N) : 1 <= w -> x <= w * x.
Proof. intro H. pose proof (N.mul_le_mono_r 1 w x H). lia. Qed.

(* ---- weight ---- *)
Lemma cat_mono {A} (w w' : N) (m : DM A) (s : dst) : d_off s <= d_len s -> w <= w' -> cat w m s -> cat w' m s.
Proof.
  intros Ho Hw. unfold cat. destruct (m s) as [a s'|e c|x|]; intro H; try exact H.
  - destruct H as (H1 & H2 & H3 & H4 & H5). split; [exact H1|]. split; [exact H2|]. split; [exact H3|].
    split; [exact H4|]. pose proof (mul_mono w w' (d_off s' - d_off s) (d_off s' - d_off s) Hw (N.le_refl _)). lia.
  - pose proof (mul_mono w w' (d_len s - d_off s) (d_len s - d_off s) Hw (N.le_refl _)). lia.
Qed.
Lemma costly_mono {A} (w w' : N) (m : DM A) : w <= w' -> costly w m -> costly w' m.
Proof. intros Hw H s W Ho. eapply cat_mono; [exact Ho|exact Hw|apply H; assumption]. Qed.

(* ---- monad ---- *)
Lemma cat_bind {A B} (w : N) (m : DM A) (f : A -> DM B) (s : dst) :
  cat w m s ->
  (forall (a : A) (s' : dst), m s = DOk a s' -> dst_wf s' -> d_off s' <= d_len s' -> cat w (f a) s') ->
  cat w (bind m f) s.
Proof.
  unfold cat at 1 3, bind. destruct (m s) as [a s'|e c|x|]; intros H Hf; try exact H.
  destruct H as (H1 & H2 & H3 & H4 & H5).
  assert (Ho' : d_off s' <= d_len s') by lia.
  specialize (Hf a s' eq_refl H1 Ho'). unfold cat in Hf.
  destruct (f a s') as [b s''|e c|x|]; try exact Hf.
  - destruct Hf as (F1 & F2 & F3 & F4 & F5).
    split; [exact F1|]. split; [congruence|]. split; [lia|]. split; [lia|].
    apply (tele_ok w (d_cost s) (d_cost s') (d_cost s'') (d_off s) (d_off s') (d_off s'')); assumption.
  - rewrite H2 in Hf.
    apply (tele_err w (d_cost s) (d_cost s') c (d_off s) (d_off s') (d_len s) 544); try assumption.
Qed.
Lemma costly_bind {A B} (w : N) (m : DM A) (f : A -> DM B) :
  costly w m -> (forall a : A, costly w (f a)) -> costly w (bind m f).
Proof.
  intros Hm Hf s W Ho. apply cat_bind; [apply Hm; assumption|].
  intros a s' _ W' Ho'. apply Hf; assumption.
Qed.

Lemma le_self_err (c w x : N) : c <= c + w * x + 544.
Proof. rewrite <- N.add_assoc. apply N.le_add_r. Qed.

Lemma costly_ret {A} (w : N) (a : A) : costly w (ret a).
Proof.
  intros s W Ho. unfold cat, ret. split; [exact W|]. split; [reflexivity|]. split; [lia|]. split; [exact Ho|].
  rewrite N.sub_diag, N.mul_0_r. lia.
Qed.
Lemma costly_err {A} (w : N) (f : dst -> err) : costly w (fun s : dst => @DErr A (f s) (d_cost s)).
Proof. intros s W Ho. unfold cat. apply le_self_err. Qed.
Lemma costly_fail {A} (w : N) (e : err) : costly w (@fail A e).
Proof. intros s W Ho. unfold cat, fail. apply le_self_err. Qed.
Lemma costly_panic {A} (w : N) (x : site) : costly w (@panic A x).
Proof. intros s W Ho. exact I. Qed.
Lemma costly_fuel {A} (w : N) : costly w (fun _ : dst => @DFuel A).
Proof. intros s W Ho. exact I. Qed.
Lemma costly_lift {A} (w : N) (r : res A) : costly w (lift r).
Proof. destruct r; cbn [lift]; [apply costly_ret|apply costly_fail|apply costly_panic|apply costly_fuel]. Qed.

(* ---- Decoder::read, is_finished, finished, bytes ---- *)
Lemma costly_read (w n : N) : 1 <= w -> costly w (read n).
Proof.
  intros Hw s W Ho. unfold cat, read. cbv zeta.
  destruct (POW64 <=? d_off s + n); [exact I|]. rewrite OP_read_val. cbn [cmp_apply].
  destruct (d_off s + n <=? d_len s) eqn:E; [|apply le_self_err].
  cbn [d_len d_off d_cost]. split; [apply (adv_wf n s W); lia|]. split; [reflexivity|].
  split; [lia|]. split; [lia|].
  replace (d_off s + n - d_off s) with n by lia. pose proof (le_mul1 w n Hw). lia.
Qed.
Lemma costly_is_finished (w : N) : costly w is_finished.
Proof.
  intros s W Ho. unfold cat.
  destruct (is_finished_cases s) as [(_ & ->)|[(_ & ->)|(e & c & E)]].
  - exact (costly_ret w false s W Ho).
  - exact (costly_ret w true s W Ho).
  - unfold is_finished in *. destruct (d_off s <? d_len s); [discriminate|].
    destruct (d_off s =? d_len s); [discriminate|]. apply le_self_err.
Qed.
Lemma costly_finished (w : N) : costly w finished.
Proof.
  unfold finished. apply costly_bind; [apply costly_is_finished|]. intros [|]; [apply costly_ret|].
  apply costly_err.
Qed.
Lemma costly_vec (w : N) : 1 <= w -> costly w vec.
Proof.
  intros Hw s W Ho. unfold cat, vec. rewrite OP_bytes_val. cbn [cmp_apply].
  destruct (d_off s <=? d_len s) eqn:E; [|apply le_self_err].
  destruct (vec_cases s W) as [(_ & _ & W')|(e & c & Ev)].
  - cbn [d_len d_off d_cost]. split; [exact W'|]. split; [reflexivity|]. split; [exact Ho|]. split; [lia|].
    pose proof (le_mul1 w (d_len s - d_off s) Hw). lia.
  - unfold vec in Ev. rewrite OP_bytes_val in Ev. cbn [cmp_apply] in Ev. rewrite E in Ev. discriminate.
Qed.
Lemma costly_loop_fuel (w : N) : costly w loop_fuel.
Proof. intros s W Ho. exact (costly_ret w (S (N.to_nat (d_len s - d_off s))) s W Ho). Qed.

(* ---- helpers.rs ---- *)
Lemma costly_u8 (w : N) : 1 <= w -> costly w u8.
Proof.
  intro Hw. unfold u8. apply costly_bind; [apply costly_read; exact Hw|].
  intros [|x r]; [apply costly_panic|apply costly_ret].
Qed.
Lemma costly_uint (w k : N) : 1 <= w -> costly w (uint k).
Proof.
  intro Hw. unfold uint. apply costly_bind; [apply costly_read; exact Hw|]. intro b.
  destruct (lenN b =? k); [apply costly_ret|apply costly_panic].
Qed.
Lemma costly_u16 (w : N) : 1 <= w -> costly w u16. Proof. apply costly_uint. Qed.
Lemma costly_u32 (w : N) : 1 <= w -> costly w u32. Proof. apply costly_uint. Qed.
Lemma costly_u64 (w : N) : 1 <= w -> costly w u64. Proof. apply costly_uint. Qed.
Lemma costly_ipv4 (w : N) : 1 <= w -> costly w ipv4_addr. Proof. apply costly_uint. Qed.
Lemma costly_code (w : N) (t : list (string * N)) (er : etag) (rd : DM N) : costly w rd -> costly w (code t er rd).
Proof.
  intro Hr. unfold code. apply costly_bind; [exact Hr|]. intro v.
  destruct (in_table t v); [apply costly_ret|apply costly_fail].
Qed.

Global Hint Extern 3 (N.le _ _) => lia : costly.
Global Hint Resolve costly_read costly_is_finished costly_finished costly_vec costly_loop_fuel costly_u8 costly_u16
  costly_u32 costly_u64 costly_ipv4 costly_uint costly_lift costly_code : costly.

Ltac kb := apply costly_bind; [solve [auto with costly]|intro].
Ltac kleaf := first [apply costly_ret | apply costly_panic | apply costly_fail | apply costly_fuel | apply costly_err
                    | solve [auto with costly]].
Ltac kif := match goal with |- costly _ (if ?b then _ else _) => destruct b end.
Ltac kauto := repeat first [kleaf | kb | kif].

Lemma costly_string (w : N) : 1 <= w -> costly w string_.
Proof. intro Hw. unfold string_. kauto. Qed.
Lemma costly_ipv6 (w : N) : 1 <= w -> costly w ipv6_addr.
Proof. intro Hw. unfold ipv6_addr. kauto. Qed.
Global Hint Resolve costly_string costly_ipv6 : costly.

(* ---- names: at most 289 octets examined by an accepted name, which consumes at least one octet of its
   window; at most 544 by a rejected one ---- *)
Definition NAME_OK_COST : N := 289.
Lemma name_ok_cost (main : bytes) (s : dst) (n : name) (s' : dst) :
  bytes_ok main -> lenN main < WFMAX -> dst_wf s -> domain_name main s = DOk n s' ->
  d_cost s' <= d_cost s + 289.
Proof.
  intros Hb Hm W E. rewrite domain_name_erase in E.
  pose proof (domain_name_g_spec main Hb Hm s W) as P.
  destruct (domain_name_g main s) as [[n0 tg] s0|e c|x|]; cbn [dres_map] in E; try discriminate.
  injection E as _ <-. destruct P as (_ & _ & _ & _ & _ & _ & _ & _ & P). unfold OK_COST in P. exact P.
Qed.

Lemma costly_domain_name (w : N) (main : bytes) : bytes_ok main -> lenN main < WFMAX -> 289 <= w ->
  costly w (domain_name main).
Proof.
  intros Hb Hm Hw s W Ho. unfold cat.
  pose proof (name_cost main s Hb Hm W) as C.
  destruct (domain_name main s) as [n s'|e c|x|] eqn:E; try exact I.
  - destruct (name_bounds main s n s' Hb Hm W E) as (B1 & B2 & B3 & _).
    pose proof (name_end_in_window main s n s' Hb Hm W E) as B4.
    pose proof (name_ok_cost main s n s' Hb Hm W E) as B5.
    split; [exact B1|]. split; [exact B2|]. split; [lia|]. split; [lia|].
    pose proof (mul_mono 289 w 1 (d_off s' - d_off s) Hw). lia.
  - destruct C as [_ C]. unfold NAME_COST in C.
    pose proof (N.le_0_l (w * (d_len s - d_off s))). lia.
Qed.

(* ---- sub-windows: the parent counts the [n] octets once, the child counts them again ---- *)
Lemma costly_with_sub {A} (w w' n : N) (m : DM A) : w + 1 <= w' -> costly w m -> costly w' (with_sub n m).
Proof.
  intros Hw Hm s W Ho. unfold cat, with_sub.
  destruct (read n s) as [b s1|e c|x|] eqn:R; try exact I.
  2:{ pose proof (costly_read w' n ltac:(lia) s W Ho) as P. unfold cat in P. rewrite R in P. exact P. }
  destruct (read_preserves_wf n s b s1 W R) as (W1 & -> & Hb & Hn).
  destruct (child_wf n s (d_cost (adv n s)) W Hn) as [L Wc]. rewrite <- Hb in L, Wc. rewrite L. unfold child in Wc.
  set (cs := {| d_rest := b; d_off := 0; d_len := n; d_cost := d_cost (adv n s) |}) in *.
  assert (S : costly w (a <- m ;; _ <- finished ;; ret a)).
  { apply costly_bind; [exact Hm|]. intro a. apply costly_bind; [apply costly_finished|]. intro. apply costly_ret. }
  specialize (S cs Wc). unfold cat in S. cbn [cs d_off d_len d_cost adv] in S.
  specialize (S ltac:(lia)).
  destruct ((a <- m ;; _ <- finished ;; ret a) cs) as [a c|e c|x|]; try exact S.
  - destruct S as (_ & _ & _ & S4 & S5). cbn [adv d_rest d_off d_len d_cost].
    split. { destruct W1 as (A1 & A2 & A3 & A4). split; [exact A1|]. split; [exact A2|]. split; [exact A3|exact A4]. }
    split; [reflexivity|]. split; [lia|]. split; [lia|].
    replace (d_off s + n - d_off s) with n by lia.
    rewrite N.sub_0_r in S5.
    pose proof (mul_mono w w (d_off c) n (N.le_refl _) S4).
    pose proof (mul_mono (w + 1) w' n n Hw (N.le_refl _)).
    rewrite N.mul_add_distr_r in *. lia.
  - rewrite N.sub_0_r in S.
    pose proof (mul_mono (w + 1) w' n (d_len s - d_off s) Hw ltac:(lia)).
    assert (Hx : (w + 1) * n = w * n + n) by lia. lia.
Qed.

(* ---- loops: the bound telescopes over the iterations; fuel exhaustion is not an error value ---- *)
Lemma costly_many {A} (w : N) (item : DM A) : costly w item ->
  forall (f : nat) (acc : list A), costly w (many f item acc).
Proof.
  intro Hi. induction f as [|f IH]; intro acc; [apply costly_fuel|].
  rewrite many_S. kb. kif; [kleaf|]. apply costly_bind; [exact Hi|]. intro. apply IH.
Qed.
Lemma costly_strings_loop (w : N) : 1 <= w -> forall (f : nat) (acc : list bytes), costly w (strings_loop f acc).
Proof.
  intro Hw. induction f as [|f IH]; intro acc; [apply costly_fuel|].
  rewrite strings_loop_S. kb. kif; [kleaf|]. kb. apply IH.
Qed.
Lemma costly_many_loop {A B} (w : N) (item : DM A) (g : list A -> DM B) : costly w item -> (forall l, costly w (g l)) ->
  costly w (fuel <- loop_fuel ;; l <- many fuel item [] ;; g l).
Proof. intros Hi Hg. kb. apply costly_bind; [apply costly_many; exact Hi|exact Hg]. Qed.

Lemma costly_repeat {A} (w : N) (m : DM A) (n : nat) : costly w m -> costly w (repeat_dm n m).
Proof.
  intro H. induction n as [|n IH]; cbn [repeat_dm]; [apply costly_ret|].
  apply costly_bind; [exact H|intro x]. apply costly_bind; [exact IH|intro r]. apply costly_ret.
Qed.
