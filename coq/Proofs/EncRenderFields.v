(* C05 (renderings) — RDATA fields of the generated tables, the record frame, and plain records:
   what [write_field]/[write_fields]/[enc_rr] append is the rendering that Spec/Render.v asks for. *)
From Coq Require Import ZArith ZifyBool ZifyN ZifyNat.
From DNS Require Import Model.Dec Model.Enc Spec.Names Spec.Iana Spec.Wire Spec.Render
  Proofs.ListN Proofs.NameLayer Proofs.NameLoop Proofs.NameMain Proofs.NameSlots
  Proofs.EncTotal Proofs.EncLimits Proofs.EncTyped Proofs.OptBase Proofs.SvcbEnc
  Proofs.RtBase Proofs.RtPrim Proofs.RtFields Proofs.RtRecord
  Proofs.CorrFields Proofs.EncRenderBase.
Local Open Scope N_scope.
Ltac Zify.zify_post_hook ::= Z.div_mod_to_equations.

(* ================================================================================================ *)
(* One field                                                                                         *)
(* ================================================================================================ *)
Lemma renP_estring (s : bytes) (R : bytes -> bytes -> Prop) :
  (forall pre, R pre (cstr s)) -> renP (estring s) R.
Proof.
  intro HR. apply (renP_inv _ (cstr s)); [|exact HR].
  intros st st' E. exact (proj2 (estring_inv s st st' E)).
Qed.

Lemma andb_inv (a b : bool) : a && b = true -> a = true /\ b = true.
Proof. apply andb_true_iff. Qed.

Theorem ren_field (k : fk) (k' : sk) (v : fv) : fv_wf k v = true -> sk_of k = Some k' ->
  renP (write_field k (Some v)) (fun pre w => renders_field pre k' [v] w).
Proof.
  destruct k; destruct v as [n|n|b|l|o]; cbn [fv_wf]; try discriminate; intros H Hs;
    cbn [sk_of] in Hs; injection Hs as <-; cbn [write_field].
  - (* FU8 *) apply (renP_emits _ _ _ (emits_eu8 n)). intro pre. rewrite u8b_is by lia. apply RF_u8. lia.
  - (* FU16 *) apply (renP_emits _ _ _ (emits_eu16 n)). intro pre. rewrite u16b_be16 by lia. apply RF_u16. lia.
  - (* FU32 *) apply (renP_emits _ _ _ (emits_eu32 n)). intro pre. rewrite u32b_be32 by lia. apply RF_u32. lia.
  - (* FU64 *) apply (renP_emits _ _ _ (emits_eu64 n)). intro pre. rewrite u64b_be64 by lia. apply RF_u64. lia.
  - (* FName *) eapply renP_weaken; [|apply renP_name, name_wf_ok, H]. intros pre w Hw. apply RF_name. exact Hw.
  - (* FStr *) apply renP_estring. intro pre. apply RF_str.
  - (* FRest *) apply (renP_emits _ _ _ (emits_put b)). intro pre. apply RF_rest.
  - (* FRestUtf8 *) apply (renP_emits _ _ _ (emits_put b)). intro pre. apply RF_rest_utf8.
  - (* FIp4 *) apply (renP_emits _ _ _ (emits_eu32 n)). intro pre. rewrite u32b_be32 by lia. apply RF_u32. lia.
  - (* FIp6 *) apply andb_inv in H. destruct H as [H1 _].
    apply (renP_emits _ _ _ (emits_put b)). intro pre. apply RF_ip6. lia.
  - (* FEnum8 *) apply andb_inv in H. destruct H as [H1 _].
    apply (renP_emits _ _ _ (emits_eu8 n)). intro pre. rewrite u8b_is by lia. apply RF_code8. lia.
  - (* FEnum16 *) apply andb_inv in H. destruct H as [H1 _].
    apply (renP_emits _ _ _ (emits_eu16 n)). intro pre. rewrite u16b_be16 by lia. apply RF_code16. lia.
  - (* FStrPsdn *) apply renP_estring. intro pre. apply RF_digits.
  - (* FStrIsdn *) apply renP_estring. intro pre. apply RF_digits.
  - (* FOptStrSa *) destruct o as [s|].
    + apply renP_estring. intro pre. apply RF_opthex_some.
    + apply renP_ret. intro pre. apply RF_opthex_none.
  - (* FStrGpos *) apply renP_estring. intro pre. apply RF_gpos.
  - (* FTag *) apply renP_estring. intro pre. apply RF_tag. apply ci_label_refl.
  - (* FStrs1 *) apply (renP_inv _ (concat (map cstr l))); [|intro pre; apply RF_strs].
    intros st st' E. rewrite emap_estring in E. destruct (find _ l); [discriminate|]. injection E as <-. reflexivity.
  - (* FDnskeyFlags *) apply andb_inv in H. destruct H as [H1 _].
    apply (renP_emits _ _ _ (emits_eu16 n)). intro pre. rewrite u16b_be16 by lia. apply RF_dnskey_flags. lia.
Qed.

Lemma ren_const (c : N) (er : etag) (o : option fv) (k' : sk) : sk_of (FConst8 c er) = Some k' ->
  renP (write_field (FConst8 c er) o) (fun pre w => renders_field pre k' [] w).
Proof.
  cbn [sk_of]. destruct (c =? 3) eqn:E; [|discriminate]. intro H. injection H as <-.
  apply N.eqb_eq in E. subst c.
  assert (write_field (FConst8 3 er) o = eu8 3) as -> by (destruct o as [[]|]; reflexivity).
  apply (renP_emits _ _ _ (emits_eu8 3)). intro pre. apply RF_proto3.
Qed.

Lemma ren_field1 (names : list string) (vals : list fv) (nm : string) (k : fk) (k' : sk) :
  field_wf names vals (nm, k) = true -> sk_of k = Some k' ->
  renP (write_field k (assoc nm names vals)) (fun pre w => renders_field pre k' (pick1 names vals (nm, k)) w).
Proof.
  unfold field_wf, pick1. cbn [fst snd]. intros H Hs.
  assert (forall v, assoc nm names vals = Some v -> fv_wf k v = true -> has_value k = true ->
            renP (write_field k (assoc nm names vals))
                 (fun pre w => renders_field pre k'
                    (if has_value k then match assoc nm names vals with Some v => [v] | None => [] end else []) w)) as HV.
  { intros v -> Hv ->. apply ren_field; assumption. }
  destruct k; try discriminate;
    try (destruct (assoc nm names vals) as [v|] eqn:Ea; [|discriminate]; apply (HV v eq_refl H eq_refl)).
  cbn [has_value]. apply ren_const. exact Hs.
Qed.

(* ================================================================================================ *)
(* The field list                                                                                    *)
(* ================================================================================================ *)
Theorem ren_fields (names : list string) (vals : list fv) : forall (f : list (string * fk)) (ks : list sk),
  fields_wf names vals f = true -> map (fun p => sk_of (snd p)) f = map Some ks ->
  renP (write_fields names vals f) (fun pre w => renders_fields pre ks (pickv names vals f) w).
Proof.
  induction f as [|[nm k] r IH]; intros ks H Hk; destruct ks as [|k' ks']; cbn [map snd] in Hk; try discriminate.
  - cbn [write_fields pickv]. apply renP_ret. intro pre. apply RFs_nil.
  - injection Hk as Hk1 Hk2.
    cbn [fields_wf] in H. apply andb_inv in H. destruct H as [H H3]. apply andb_inv in H. destruct H as [H1 _].
    cbn [write_fields pickv].
    eapply renP_bind.
    + exact (proj1 (rt_field1 names vals nm k H1)).
    + apply (ren_field1 names vals nm k k' H1 Hk1).
    + apply (IH ks' H3 Hk2).
    + intros pre w1 w2 Hw1 Hw2. apply RFs_cons; assumption.
Qed.

(* ================================================================================================ *)
(* The record frame: owner, TYPE, CLASS, TTL, RDLENGTH, RDATA                                        *)
(* ================================================================================================ *)
Definition frame_head (ty cls ttl rdlen : N) : bytes := be16 ty ++ be16 cls ++ be32 ttl ++ be16 rdlen.

Lemma frame_puts (ty cls ttl : N) (body : EM unit) (st : est) :
  (_ <-- eu16 ty ;; _ <-- eu16 cls ;; _ <-- eu32 ttl ;; slot body) st =
  (_ <-- put (u16b ty ++ u16b cls ++ u32b ttl) ;; slot body) st.
Proof. unfold eu16, eu32. rewrite !ebind_put, !sput_sput. reflexivity. Qed.

Lemma ren_frame_tail (ty cls ttl : N) (body : EM unit) (Rb : bytes -> bytes -> Prop) :
  ty < 65536 -> cls < 65536 -> ttl < 4294967296 -> encP body -> renP body Rb ->
  renP (_ <-- eu16 ty ;; _ <-- eu16 cls ;; _ <-- eu32 ttl ;; slot body)
       (fun pre w => exists wd : bytes, lenN wd < 65536 /\ w = frame_head ty cls ttl (lenN wd) ++ wd /\ Rb (pre ++ frame_head ty cls ttl (lenN wd)) wd).
Proof.
  intros Hty Hcls Httl Pb Hb.
  apply (renP_ext (_ <-- put (u16b ty ++ u16b cls ++ u32b ttl) ;; slot body)); [apply frame_puts|].
  apply (renP_bind _ _ (fun _ w => w = be16 ty ++ be16 cls ++ be32 ttl)
           (fun pre w => exists wd, lenN wd < 65536 /\ w = be16 (lenN wd) ++ wd /\ Rb (pre ++ be16 (lenN wd)) wd)).
  - apply encP_put.
  - apply (renP_emits _ _ _ (emits_put _)).
    intros _. rewrite !u16b_be16, u32b_be32 by assumption. reflexivity.
  - apply (renP_slot body Rb _ Pb Hb).
    intros pre wb Hl Hw. exists wb. split; [exact Hl|]. split; [reflexivity|exact Hw].
  - intros pre w1 w2 -> (wd & Hl & -> & Hw). exists wd. split; [exact Hl|].
    unfold frame_head. rewrite <- !app_assoc in *. split; [reflexivity|exact Hw].
Qed.

Theorem ren_rr_frame (nm : name) (ty cls ttl : N) (body : EM unit) (Rb : bytes -> bytes -> Prop) :
  name_wf nm = true -> ty < 65536 -> cls < 65536 -> ttl < 4294967296 -> encP body -> renP body Rb ->
  renP (rr_frame_enc nm ty cls ttl body)
       (fun pre w => exists wn wd : bytes, renders_name pre nm wn /\ lenN wd < 65536 /\ w = wn ++ frame_head ty cls ttl (lenN wd) ++ wd /\ Rb (pre ++ wn ++ frame_head ty cls ttl (lenN wd)) wd).
Proof.
  intros Hn Hty Hcls Httl Pb Hb. unfold rr_frame_enc.
  eapply renP_bind; [apply encP_name_wf, Hn|apply renP_name, name_wf_ok, Hn| |].
  - apply (ren_frame_tail ty cls ttl body Rb); assumption.
  - cbv beta. intros pre wn w2 Hwn (wd & Hl & -> & Hw).
    exists wn, wd. split; [exact Hwn|]. split; [exact Hl|]. split; [reflexivity|].
    rewrite <- app_assoc in Hw. exact Hw.
Qed.

(* ================================================================================================ *)
(* Plain records                                                                                     *)
(* ================================================================================================ *)
Lemma type_mem (t : N) : in_table Type_table t = true -> mem t (codes iana_Type) = true.
Proof. intro H. rewrite <- tab_Type. exact H. Qed.

Theorem ren_rr_plain (r : rr) : plain_wf r = true -> renP (enc_rr r) (fun pre w => renders_rr pre r w).
Proof.
  unfold plain_wf. intros H. apply andb_inv in H. destruct H as [Hc H].
  destruct (common_wf_inv r Hc) as (Hn & Hty & Httl).
  destruct (lookup (r_type r) enc_dispatch) as [[ec f|sp]|] eqn:El; try discriminate.
  destruct (r_data r) as [vals| | |] eqn:Ed; try discriminate.
  apply andb_inv in H. destruct H as [Hv Hcl].
  pose proof (entry_agrees_lookup _ _ El) as Ha. unfold entry_agrees in Ha. rewrite El in Ha.
  destruct Ha as (ck & Hdec & Hcm & Hsh & Hnd).
  pose proof (disp_ok_type _ (type_mem _ Hty)) as Hd. unfold disp_ok in Hd. rewrite Hdec in Hd.
  destruct Hd as (ks & Hfmt & Hks & _).
  set (cls := match ec with ECField => r_class r | ECIn => CLASS_IN end).
  assert (cls = r_class r) as Ecls.
  { unfold cls. destruct ec; [reflexivity|]. unfold CLASS_IN. lia. }
  assert (enc_rr r = rr_frame_enc (r_name r) (r_type r) cls (r_ttl r)
                       (write_fields (dec_value_names (r_type r)) vals f)) as Eenc.
  { unfold enc_rr. rewrite El, Ed. reflexivity. }
  rewrite Eenc.
  assert (dec_value_names (r_type r) = value_names f) as Evn by (unfold dec_value_names; rewrite Hdec; reflexivity).
  assert (dec_value_fields (r_type r) = filter (fun p => has_value (snd p)) f) as Evf
    by (unfold dec_value_fields; rewrite Hdec; reflexivity).
  rewrite Evf in Hv. rewrite Evn.
  destruct (fields_link f [] [] vals eq_refl (fun _ _ Hin => Hin) (nodupb_NoDup _ Hnd) Hsh Hv) as [Hfw Hpick].
  cbn [app] in Hfw, Hpick.
  destruct (rt_fields (value_names f) vals f Hfw) as [Pf _].
  pose proof (ren_fields (value_names f) vals f ks Hfw Hks) as Rf. rewrite Hpick in Rf.
  assert (cls < 65536) as Hcls.
  { unfold cls. destruct ec; [apply class_table_bound; exact Hcl|unfold CLASS_IN; lia]. }
  eapply renP_weaken; [|apply (ren_rr_frame (r_name r) (r_type r) cls (r_ttl r) _ _ Hn
                                  (type_table_bound _ Hty) Hcls Httl Pf Rf)].
  cbv beta. intros pre w (wn & wd & Hwn & Hl & -> & Hw).
  assert (frame_head (r_type r) cls (r_ttl r) (lenN wd) = rr_head r (lenN wd)) as Eh.
  { unfold frame_head, rr_head, wire_class, wire_ttl. rewrite Ed, Ecls. reflexivity. }
  rewrite Eh in *. apply RR_record; [exact Hwn|]. rewrite Ed.
  apply (RD_fields _ _ ks); assumption.
Qed.
