(* C05 / C02 (success side): a well-formed message whose UNCOMPRESSED wire size (Spec/USize.v) fits in
   65,535 octets encodes; in general encoding a well-formed message either succeeds, with an output
   no longer than the uncompressed size, or fails with XLength, and then the uncompressed size
   exceeds 65,535 octets.  Element-level versions from any encoder state with the name invariant. *)
From DNS Require Import Model.Dec Model.Enc Spec.Names Spec.USize
  Proofs.ListN Proofs.NameLayer Proofs.NameLoop Proofs.NameMain Proofs.NameSlots
  Proofs.EncTotal Proofs.EncLimits Proofs.DecBase
  Proofs.RtBase Proofs.RtPrim Proofs.RtFields Proofs.RtRecord Proofs.RtSpecial Proofs.RtApl Proofs.RtMsg
  Proofs.C05 Proofs.RtDecWf3 Proofs.EncSize.
Require Import ZArith ZifyBool ZifyN ZifyNat.
Local Open Scope N_scope.
Ltac Zify.zify_post_hook ::= Z.div_mod_to_equations.

(* ================================================================================================ *)
(* reading [encT] both ways                                                                          *)
(* ================================================================================================ *)
Lemma encT_size_le (enc : EM unit) (U : N) (st : est) (mask : list bool) (st' : est) :
  encT enc U -> InvM st mask -> enc st = EOk tt st' -> lenN (e_buf st') <= lenN (e_buf st) + U.
Proof.
  intros T HI E. destruct (T st mask HI) as [(s1 & E1 & L)|(k & E1 & _)]; [|congruence].
  assert (s1 = st') as <- by congruence. exact L.
Qed.

Lemma encT_succeeds (enc : EM unit) (U : N) (st : est) (mask : list bool) :
  encT enc U -> InvM st mask -> lenN (e_buf st) + U <= 65535 -> exists st', enc st = EOk tt st'.
Proof.
  intros T HI Hs. destruct (T st mask HI) as [(s1 & E1 & _)|(k & _ & L)]; [exists s1; exact E1|lia].
Qed.

Lemma encT_dichotomy (enc : EM unit) (U : N) (st : est) (mask : list bool) :
  encT enc U -> InvM st mask ->
  (exists st', enc st = EOk tt st') \/
  (exists k, enc st = EErr (XLength, [k]) /\ 65535 < lenN (e_buf st) + U).
Proof.
  intros T HI. destruct (T st mask HI) as [(s1 & E1 & _)|H]; [left; exists s1; exact E1|right; exact H].
Qed.

(* ================================================================================================ *)
(* elements, from any state with the invariant                                                       *)
(* ================================================================================================ *)
(* 2. compression only shrinks: what a record writer appends is at most the uncompressed size *)
Theorem enc_rr_size_le : forall (r : rr) (st : est) (mask : list bool) (st' : est),
  rr_wf r = true -> InvM st mask -> enc_rr r st = EOk tt st' ->
  lenN (e_buf st') <= lenN (e_buf st) + usize_rr r.
Proof. intros r st mask st' H. apply encT_size_le, encT_rr, H. Qed.

Theorem enc_question_size_le : forall (q : question) (st : est) (mask : list bool) (st' : est),
  question_wf q = true -> InvM st mask -> enc_question q st = EOk tt st' ->
  lenN (e_buf st') <= lenN (e_buf st) + usize_question q.
Proof. intros q st mask st' H. apply encT_size_le, encT_question, H. Qed.

Theorem enc_name_size_le : forall (n : name) (st : est) (mask : list bool) (st' : est),
  name_wf n = true -> InvM st mask -> enc_domain_name n st = EOk tt st' ->
  lenN (e_buf st') <= lenN (e_buf st) + usize_name n.
Proof. intros n st mask st' H. apply encT_size_le, encT_name_wf, H. Qed.

(* a section *)
Lemma encT_section (l : list rr) : forallb rr_wf l = true -> encT (emap enc_rr l) (sumN (map usize_rr l)).
Proof.
  intros H. rewrite forallb_forall in H. apply encT_emap.
  - intros r Hr. exact (proj1 (rt_rr false r (H r Hr))).
  - intros r Hr. apply encT_rr, H, Hr.
Qed.
Lemma encT_questions (l : list question) :
  forallb question_wf l = true -> encT (emap enc_question l) (sumN (map usize_question l)).
Proof.
  intros H. rewrite forallb_forall in H. apply encT_emap.
  - intros q Hq. exact (proj1 (rt_question false q (H q Hq))).
  - intros q Hq. apply encT_question, H, Hq.
Qed.

Theorem enc_section_size_le : forall (l : list rr) (st : est) (mask : list bool) (st' : est),
  forallb rr_wf l = true -> InvM st mask -> emap enc_rr l st = EOk tt st' ->
  lenN (e_buf st') <= lenN (e_buf st) + sumN (map usize_rr l).
Proof. intros l st mask st' H. apply encT_size_le, encT_section, H. Qed.

(* 3/4 at the element: a record writer fails only with XLength, and only when the buffer plus the
   record's uncompressed size exceeds 65,535 octets *)
Theorem enc_rr_fails_only_by_size : forall (r : rr) (st : est) (mask : list bool),
  rr_wf r = true -> InvM st mask ->
  (exists st', enc_rr r st = EOk tt st') \/
  (exists k, enc_rr r st = EErr (XLength, [k]) /\ 65535 < lenN (e_buf st) + usize_rr r).
Proof. intros r st mask H. apply encT_dichotomy, encT_rr, H. Qed.

Theorem enc_rr_succeeds : forall (r : rr) (st : est) (mask : list bool),
  rr_wf r = true -> InvM st mask -> lenN (e_buf st) + usize_rr r <= 65535 ->
  exists st', enc_rr r st = EOk tt st'.
Proof. intros r st mask H. apply encT_succeeds, encT_rr, H. Qed.

Theorem enc_question_fails_only_by_size : forall (q : question) (st : est) (mask : list bool),
  question_wf q = true -> InvM st mask ->
  (exists st', enc_question q st = EOk tt st') \/
  (exists k, enc_question q st = EErr (XLength, [k]) /\ 65535 < lenN (e_buf st) + usize_question q).
Proof. intros q st mask H. apply encT_dichotomy, encT_question, H. Qed.

(* ================================================================================================ *)
(* the message                                                                                       *)
(* ================================================================================================ *)
Lemma encT_dns_body (m : dns) : dns_wf m = true ->
  encT (enc_dns_body m)
       (sumN (map usize_question (m_qd m)) +
        (sumN (map usize_rr (m_an m)) + (sumN (map usize_rr (m_ns m)) + (sumN (map usize_rr (m_ar m)) + 0)))).
Proof.
  intros H. destruct (dns_wf_gen_inv rr_wf m H) as (_ & _ & Hq & Ha & Hn & Hr & _).
  assert (forall l, forallb rr_wf l = true -> encP (emap enc_rr l)) as PS.
  { intros l Hl. rewrite forallb_forall in Hl. apply encP_emap. intros r Hr0.
    exact (proj1 (rt_rr false r (Hl r Hr0))). }
  unfold enc_dns_body.
  apply encT_bind.
  { rewrite forallb_forall in Hq. apply encP_emap. intros q Hq0. exact (proj1 (rt_question false q (Hq q Hq0))). }
  { apply encT_questions, Hq. }
  apply encT_bind; [apply PS, Ha|apply encT_section, Ha|].
  apply encT_bind; [apply PS, Hn|apply encT_section, Hn|].
  apply encT_bind; [apply PS, Hr|apply encT_section, Hr|apply encT_final].
Qed.

(* the whole statement in one: success with an output bounded by the uncompressed size, or XLength
   with an uncompressed size above the limit *)
Theorem enc_Dns_total : forall m : dns, dns_wf m = true ->
  (exists b, enc_Dns m = Ok b /\ lenN b <= usize_dns m) \/
  (exists k, enc_Dns m = Err (XLength, [k]) /\ 65535 < usize_dns m).
Proof.
  intros m H. destruct (dns_wf_gen_inv rr_wf m H) as (_ & _ & _ & _ & _ & _ & Lq & La & Ln & Lr).
  unfold enc_Dns, erun. rewrite enc_dns_unfold, POW16_val.
  destruct (lenN (m_qd m) <? 65536) eqn:E1; [|lia]. destruct (lenN (m_an m) <? 65536) eqn:E2; [|lia].
  destruct (lenN (m_ns m) <? 65536) eqn:E3; [|lia]. destruct (lenN (m_ar m) <? 65536) eqn:E4; [|lia].
  destruct (put_preserves e_init [] (hdr m) InvM_init) as (s0 & Hp & _ & HI0).
  assert (s0 = sput e_init (hdr m)) as -> by (rewrite EncLimits.put_eq in Hp; congruence).
  assert (lenN (e_buf (sput e_init (hdr m))) = 12) as HL by reflexivity.
  destruct (encT_dns_body m H _ _ HI0) as [(st' & E & L)|(k & E & L)]; rewrite E.
  - left. exists (e_buf st'). split; [reflexivity|]. unfold usize_dns. lia.
  - right. exists k. split; [reflexivity|]. unfold usize_dns. lia.
Qed.

(* 3. *)
Theorem C05_encode_succeeds_proof : forall m : dns,
  dns_wf m = true -> usize_dns m <= 65535 -> exists b, enc_Dns m = Ok b.
Proof.
  intros m H Hs. destruct (enc_Dns_total m H) as [(b & E & _)|(k & _ & L)]; [exists b; exact E|lia].
Qed.

(* 4. *)
Theorem C05_encode_fails_only_by_size_proof : forall m : dns, dns_wf m = true ->
  (exists b, enc_Dns m = Ok b) \/ (exists k, enc_Dns m = Err (XLength, [k]) /\ 65535 < usize_dns m).
Proof.
  intros m H. destruct (enc_Dns_total m H) as [(b & E & _)|F]; [left; exists b; exact E|right; exact F].
Qed.

(* 2. at the message *)
Theorem enc_size_le : forall (m : dns) (b : bytes),
  dns_wf m = true -> enc_Dns m = Ok b -> lenN b <= usize_dns m.
Proof.
  intros m b H E. destruct (enc_Dns_total m H) as [(b' & E' & L)|(k & E' & _)]; [|congruence].
  assert (b' = b) as <- by congruence. exact L.
Qed.

(* the converse reading: a failure of the encoder on a well-formed message proves that the message
   does not fit, whatever the compression could have saved *)
Theorem C05_failure_means_oversize_proof : forall (m : dns) (e : err),
  dns_wf m = true -> enc_Dns m = Err e -> (exists k, e = (XLength, [k])) /\ 65535 < usize_dns m.
Proof.
  intros m e H E. destruct (enc_Dns_total m H) as [(b & E' & _)|(k & E' & L)]; [congruence|].
  split; [exists k; congruence|exact L].
Qed.

(* 5. C02: what the decoder accepted re-encodes whenever its uncompressed size fits *)
Theorem C02_encode_succeeds_proof : forall (b : bytes) (m : dns) (s : dst),
  bytes_ok b -> dec_Dns b = DOk m s -> usize_dns m <= 65535 -> exists b', enc_Dns m = Ok b'.
Proof. intros b m s Hb Hd Hs. exact (C05_encode_succeeds_proof m (decoded_wf b m s Hb Hd) Hs). Qed.

Theorem C02_reencode_fails_only_by_size_proof : forall (b : bytes) (m : dns) (s : dst),
  bytes_ok b -> dec_Dns b = DOk m s ->
  (exists b', enc_Dns m = Ok b' /\ lenN b' <= usize_dns m) \/
  (exists k, enc_Dns m = Err (XLength, [k]) /\ 65535 < usize_dns m).
Proof. intros b m s Hb Hd. exact (enc_Dns_total m (decoded_wf b m s Hb Hd)). Qed.
