From DNS Require Import Model.Dec Model.Enc Spec.Iana Proofs.Enum.
Local Open Scope N_scope.

Lemma C11_tables_proof :
  table_ok Opcode_width Opcode_table iana_Opcode = true /\
  table_ok RCode_width RCode_table iana_RCode = true /\
  table_ok Class_width Class_table iana_Class = true /\
  table_ok Type_width Type_table iana_Type = true /\
  table_ok QType_width QType_table iana_QType = true /\
  table_ok QClass_width QClass_table iana_QClass = true /\
  table_ok EDNSOptionCode_width EDNSOptionCode_table iana_EDNSOptionCode = true /\
  table_ok AlgorithmType_width AlgorithmType_table iana_AlgorithmType = true /\
  table_ok DigestType_width DigestType_table iana_DigestType = true /\
  table_ok SSHFPAlgorithm_width SSHFPAlgorithm_table iana_SSHFPAlgorithm = true /\
  table_ok SSHFPType_width SSHFPType_table iana_SSHFPType = true /\
  table_ok AFSDBSubtype_width AFSDBSubtype_table iana_AFSDBSubtype = true /\
  table_ok AddressFamilyNumber_width AddressFamilyNumber_table iana_AddressFamilyNumber = true.
Proof. vm_compute. repeat split. Qed.

(* final decoder state after reading a k-octet code from a k-octet input *)
Definition code_final (k : N) : dst := {| d_rest := []; d_off := k; d_len := k; d_cost := k |}.

Definition dres_eqb_N (a b : dres N) : bool :=
  match a, b with
  | DOk x s, DOk y t => (x =? y) && (d_off s =? d_off t) && (d_len s =? d_len t) && (d_cost s =? d_cost t)
                        && match d_rest s, d_rest t with [], [] => true | _, _ => false end
  | DErr (e1, p1) c1, DErr (e2, p2) c2 =>
      (c1 =? c2) && list_eqb N.eqb p1 p2 &&
      match e1, e2 with EType, EType | EClass, EClass | EQType, EQType | EQClass, EQClass => true | _, _ => false end
  | _, _ => false
  end.

Lemma dres_eqb_N_eq a b : dres_eqb_N a b = true -> a = b.
Proof.
  destruct a as [x s| [e1 p1] c1 | |], b as [y t| [e2 p2] c2 | |]; cbn; try discriminate.
  - destruct s as [r1 o1 l1 c1], t as [r2 o2 l2 c2]; cbn.
    destruct r1, r2; rewrite ?andb_false_r; try discriminate.
    rewrite !andb_true_iff, !N.eqb_eq. intros [[[[-> ->] ->] ->] _]. reflexivity.
  - rewrite !andb_true_iff, N.eqb_eq. intros [[-> Hp] He].
    assert (p1 = p2) as ->.
    { clear He. revert p2 Hp. induction p1 as [|a p1 IH]; destruct p2 as [|b p2]; cbn; try discriminate; auto.
      rewrite andb_true_iff, N.eqb_eq. intros [-> H]. f_equal. auto. }
    destruct e1, e2; try discriminate; reflexivity.
Qed.

Definition code_point_ok (v : N) : bool :=
  dres_eqb_N (dec_Type (u16b v)) (if in_table Type_table v then DOk v (code_final 2) else DErr (EType, [v]) 2) &&
  dres_eqb_N (dec_Class (u16b v)) (if in_table Class_table v then DOk v (code_final 2) else DErr (EClass, [v]) 2) &&
  dres_eqb_N (dec_QType (u16b v)) (if in_table QType_table v then DOk v (code_final 2) else DErr (EQType, [v]) 2) &&
  dres_eqb_N (dec_QClass (u16b v)) (if in_table QClass_table v then DOk v (code_final 2) else DErr (EQClass, [v]) 2) &&
  match enc_code v with Ok b => list_eqb N.eqb b (u16b v) | _ => false end.

Lemma code_points_all : forallb code_point_ok (nrange 65536) = true.
Proof. vm_compute. reflexivity. Qed.

Lemma list_eqb_N_eq a b : list_eqb N.eqb a b = true -> a = b.
Proof.
  revert b. induction a as [|x a IH]; destruct b as [|y b]; cbn; try discriminate; auto.
  rewrite andb_true_iff, N.eqb_eq. intros [-> H]. f_equal. auto.
Qed.

Lemma C11_code_points_proof : forall v, v < 65536 ->
  (dec_Type (u16b v) = (if in_table Type_table v then DOk v (code_final 2) else DErr (EType, [v]) 2)) /\
  (dec_Class (u16b v) = (if in_table Class_table v then DOk v (code_final 2) else DErr (EClass, [v]) 2)) /\
  (dec_QType (u16b v) = (if in_table QType_table v then DOk v (code_final 2) else DErr (EQType, [v]) 2)) /\
  (dec_QClass (u16b v) = (if in_table QClass_table v then DOk v (code_final 2) else DErr (EQClass, [v]) 2)) /\
  enc_code v = Ok (u16b v).
Proof.
  intros v Hv.
  pose proof (proj1 (forallb_forall _ _) code_points_all v (nrange_in _ _ Hv)) as H.
  unfold code_point_ok in H. rewrite !andb_true_iff in H.
  destruct H as [[[[H1 H2] H3] H4] H5].
  split; [apply dres_eqb_N_eq; exact H1|].
  split; [apply dres_eqb_N_eq; exact H2|].
  split; [apply dres_eqb_N_eq; exact H3|].
  split; [apply dres_eqb_N_eq; exact H4|].
  destruct (enc_code v) as [b| | |]; try discriminate. f_equal. apply list_eqb_N_eq. exact H5.
Qed.

(* ---- flags ---- *)
Definition bit (w : N) (i : N) : bool := N.testbit w i.
Definition bits4 (w : N) (lo : N) : N :=
  (if bit w lo then 1 else 0) + (if bit w (lo + 1) then 2 else 0) +
  (if bit w (lo + 2) then 4 else 0) + (if bit w (lo + 3) then 8 else 0).

(* RFC 1035 4.1.1 + RFC 2535 6.1, bit 15 = QR (most significant bit of the first octet) *)
Definition flags_word_spec (w : N) : Prop :=
  let b0 := w / 256 in let b1 := w mod 256 in
  let opcode := bits4 w 11 in let rcode := bits4 w 0 in
  if negb (in_table Opcode_table opcode) then dec_Flags [b0; b1] = DErr (EOpcode, [opcode]) 1
  else if bit w 6 then dec_Flags [b0; b1] = DErr (EZNotZeroes, [64]) 2
  else if negb (in_table RCode_table rcode) then dec_Flags [b0; b1] = DErr (ERCode, [rcode]) 2
  else exists f, dec_Flags [b0; b1] = DOk f (code_final 2) /\
       f_qr f = bit w 15 /\ f_opcode f = opcode /\ f_aa f = bit w 10 /\ f_tc f = bit w 9 /\
       f_rd f = bit w 8 /\ f_ra f = bit w 7 /\ f_ad f = bit w 5 /\ f_cd f = bit w 4 /\
       f_rcode f = rcode /\ enc_Flags f = Ok [b0; b1].

Definition err_is (r : dres flags) (t : etag) (p c : N) : bool :=
  match r with
  | DErr (e, [p']) c' => (p =? p') && (c =? c') &&
      match e, t with EOpcode, EOpcode | EZNotZeroes, EZNotZeroes | ERCode, ERCode => true | _, _ => false end
  | _ => false
  end.
Lemma err_is_eq r t p c : err_is r t p c = true -> (t = EOpcode \/ t = EZNotZeroes \/ t = ERCode) -> r = DErr (t, [p]) c.
Proof.
  destruct r as [| [e pl] c' | |]; cbn; try discriminate.
  destruct pl as [|p' [|]]; try discriminate.
  rewrite !andb_true_iff, !N.eqb_eq. intros [[-> ->] He] _.
  destruct e, t; try discriminate; reflexivity.
Qed.

Definition flags_word_okb (w : N) : bool :=
  let b0 := w / 256 in let b1 := w mod 256 in
  let opcode := bits4 w 11 in let rcode := bits4 w 0 in
  if negb (in_table Opcode_table opcode) then err_is (dec_Flags [b0; b1]) EOpcode opcode 1
  else if bit w 6 then err_is (dec_Flags [b0; b1]) EZNotZeroes 64 2
  else if negb (in_table RCode_table rcode) then err_is (dec_Flags [b0; b1]) ERCode rcode 2
  else match dec_Flags [b0; b1] with
       | DOk f s =>
         match d_rest s with [] => true | _ => false end && (d_off s =? 2) && (d_len s =? 2) && (d_cost s =? 2) &&
         Bool.eqb (f_qr f) (bit w 15) && (f_opcode f =? opcode) && Bool.eqb (f_aa f) (bit w 10) &&
         Bool.eqb (f_tc f) (bit w 9) && Bool.eqb (f_rd f) (bit w 8) && Bool.eqb (f_ra f) (bit w 7) &&
         Bool.eqb (f_ad f) (bit w 5) && Bool.eqb (f_cd f) (bit w 4) && (f_rcode f =? rcode) &&
         match enc_Flags f with Ok b => list_eqb N.eqb b [b0; b1] | _ => false end
       | _ => false
       end.

Lemma flags_words_all : forallb flags_word_okb (nrange 65536) = true.
Proof. vm_compute. reflexivity. Qed.

Lemma C11_flags_proof : forall w, w < 65536 -> flags_word_spec w.
Proof.
  intros w Hw.
  pose proof (proj1 (forallb_forall _ _) flags_words_all w (nrange_in _ _ Hw)) as H.
  unfold flags_word_okb in H. unfold flags_word_spec.
  set (b0 := w / 256) in *. set (b1 := w mod 256) in *.
  set (opcode := bits4 w 11) in *. set (rcode := bits4 w 0) in *.
  destruct (negb (in_table Opcode_table opcode)); [apply err_is_eq; auto|].
  destruct (bit w 6); [apply err_is_eq; auto|].
  destruct (negb (in_table RCode_table rcode)); [apply err_is_eq; auto|].
  destruct (dec_Flags [b0; b1]) as [f s| | |]; try discriminate.
  rewrite !andb_true_iff in H.
  destruct H as [[[[[[[[[[[[[Hr Ho] Hl] Hc] H1] H2] H3] H4] H5] H6] H7] H8] H9] H10].
  exists f.
  apply N.eqb_eq in Ho, Hl, Hc, H2, H9. apply Bool.eqb_prop in H1, H3, H4, H5, H6, H7, H8.
  split.
  - f_equal. destruct s as [r o l c]; cbn in *. destruct r; try discriminate. subst. reflexivity.
  - repeat (split; [assumption|]).
    destruct (enc_Flags f) as [b| | |]; try discriminate. f_equal. apply list_eqb_N_eq. exact H10.
Qed.
