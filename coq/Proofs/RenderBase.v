(* C04 (renderings) — base: acceptance of a rendering by a reference parser of Spec/Wire.v.
   [acc E p pre w v]: placed behind [pre] and in front of any [post], the octets [w] are consumed exactly
   by the parser [p], which returns [v]; the limit may be anywhere behind [w] (E = false) or is exactly
   the end of [w] (E = true: elements that read up to the end of their window). *)
From Coq Require Import ZArith ZifyBool ZifyN ZifyNat.
From DNS Require Import Base.Bytes Model.Fmt Model.Values Spec.Names Spec.Wire Spec.Render
  Proofs.ListN Proofs.DecBase Proofs.EncTotal.
Local Open Scope N_scope.
Ltac Zify.zify_post_hook ::= Z.div_mod_to_equations.

Ltac lenN_norm := repeat first [rewrite lenN_app | rewrite lenN_cons | rewrite lenN_nil].
Ltac lenN_norm_in H := repeat first [rewrite lenN_app in H | rewrite lenN_cons in H | rewrite lenN_nil in H].

Definition acc {A} (E : bool) (p : P A) (pre w : bytes) (v : A) : Prop :=
  forall (post : bytes) (e : N),
    (if E then e = lenN pre + lenN w else lenN pre + lenN w <= e) ->
    p (pre ++ w ++ post) (lenN pre) e = Some (v, lenN pre + lenN w).

Lemma acc_end {A} (E : bool) (p : P A) (pre w : bytes) (v : A) : acc false p pre w v -> acc E p pre w v.
Proof. intros H post e He. apply H. destruct E; lia. Qed.

Lemma acc_ret {A} (E : bool) (v : A) (pre : bytes) : acc E (pret v) pre [] v.
Proof. intros post e _. unfold pret. rewrite lenN_nil, N.add_0_r. reflexivity. Qed.

Lemma acc_bind {A B} (E : bool) (p : P A) (g : A -> P B) (pre w1 w2 : bytes) (x : A) (y : B) :
  acc false p pre w1 x -> acc E (g x) (pre ++ w1) w2 y -> acc E (pbind p g) pre (w1 ++ w2) y.
Proof.
  intros H1 H2 post e He. unfold pbind. rewrite <- app_assoc.
  rewrite (H1 (w2 ++ post) e) by (rewrite lenN_app in He; destruct E; lia).
  specialize (H2 post e). rewrite <- app_assoc, !lenN_app in H2. rewrite lenN_app.
  rewrite N.add_assoc. apply H2. rewrite lenN_app in He. destruct E; lia.
Qed.

Lemma acc_eq {A} (E : bool) (p : P A) (pre w w' : bytes) (v : A) : w = w' -> acc E p pre w' v -> acc E p pre w v.
Proof. intros ->. auto. Qed.

(* the last consuming parser of a chain *)
Lemma acc_bind_last {A B} (E : bool) (p : P A) (g : A -> P B) (pre w : bytes) (x : A) (y : B) :
  acc false p pre w x -> acc E (g x) (pre ++ w) [] y -> acc E (pbind p g) pre w y.
Proof. intros H1 H2. apply (acc_eq E _ pre w (w ++ [])); [symmetry; apply app_nil_r|]. eapply acc_bind; eassumption. Qed.

(* a parser that consumes nothing and returns [x] in front of a continuation *)
Lemma acc_bind_nil {A B} (E : bool) (p : P A) (g : A -> P B) (pre w : bytes) (x : A) (y : B) :
  (forall b s e, p b s e = Some (x, s)) -> acc E (g x) pre w y -> acc E (pbind p g) pre w y.
Proof. intros H1 H2 post e He. unfold pbind. rewrite H1. apply H2. exact He. Qed.

Lemma acc_ext {A} (E : bool) (p p' : P A) (pre w : bytes) (v : A) :
  (forall b s e, p' b s e = p b s e) -> acc E p pre w v -> acc E p' pre w v.
Proof. intros H H1 post e He. rewrite H. apply H1. exact He. Qed.

(* ---- octets, numbers ---- *)
Lemma takeN_dropN_here (pre x post : bytes) : takeN (lenN x) (dropN (lenN pre) (pre ++ x ++ post)) = x.
Proof. apply takeN_dropN_mid. Qed.

Lemma acc_octets (n : N) (pre x : bytes) : lenN x = n -> acc false (octets n) pre x x.
Proof.
  intros Hn post e He. unfold octets. subst n.
  assert (lenN pre + lenN x <=? e = true) as -> by lia. cbv zeta.
  rewrite takeN_dropN_here, N.eqb_refl. reflexivity.
Qed.

Lemma acc_num (n : N) (pre x : bytes) : lenN x = n -> acc false (num n) pre x (be x).
Proof. intros Hn post e He. unfold num. rewrite (acc_octets n pre x Hn post e He). reflexivity. Qed.

Lemma be16_len (v : N) : lenN (be16 v) = 2. Proof. reflexivity. Qed.
Lemma be32_len (v : N) : lenN (be32 v) = 4. Proof. reflexivity. Qed.
Lemma be64_len (v : N) : lenN (be64 v) = 8. Proof. reflexivity. Qed.
Lemma be_be16 (v : N) : v < 65536 -> be (be16 v) = v.
Proof. intro H. unfold be16, be. cbn [be_join]. lia. Qed.
Lemma be_be32 (v : N) : v < 4294967296 -> be (be32 v) = v.
Proof. intro H. unfold be32, be. cbn [be_join]. lia. Qed.
Lemma be_be64 (v : N) : v < 18446744073709551616 -> be (be64 v) = v.
Proof. intro H. unfold be64, be32, be. cbn [be_join app]. lia. Qed.
Lemma be_single (v : N) : be [v] = v. Proof. reflexivity. Qed.

Lemma bytes_ok_app (a b : bytes) : bytes_ok a -> bytes_ok b -> bytes_ok (a ++ b).
Proof. unfold bytes_ok. intros. apply Forall_app. split; assumption. Qed.
Lemma bytes_ok_app_inv (a b : bytes) : bytes_ok (a ++ b) -> bytes_ok a /\ bytes_ok b.
Proof. unfold bytes_ok. apply Forall_app. Qed.
Lemma bytes_ok_cons (x : N) (a : bytes) : x < 256 -> bytes_ok a -> bytes_ok (x :: a).
Proof. intros. constructor; assumption. Qed.
Lemma bytes_ok_nil : bytes_ok []. Proof. constructor. Qed.
Lemma be16_ok (v : N) : v < 65536 -> bytes_ok (be16 v).
Proof. intro H. unfold be16. repeat (apply bytes_ok_cons; [lia|]). apply bytes_ok_nil. Qed.
Lemma be32_ok (v : N) : v < 4294967296 -> bytes_ok (be32 v).
Proof. intro H. unfold be32. repeat (apply bytes_ok_cons; [lia|]). apply bytes_ok_nil. Qed.
Lemma be64_ok (v : N) : v < 18446744073709551616 -> bytes_ok (be64 v).
Proof. intro H. unfold be64. apply bytes_ok_app; apply be32_ok; lia. Qed.
Lemma bytes_ok_concat (ws : list bytes) : Forall bytes_ok ws -> bytes_ok (concat ws).
Proof. induction 1; cbn [concat]; [apply bytes_ok_nil|apply bytes_ok_app; assumption]. Qed.

Lemma acc_num1 (pre : bytes) (v : N) : acc false (num 1) pre [v] v.
Proof. exact (acc_num 1 pre [v] eq_refl). Qed.
Lemma acc_num2 (pre : bytes) (v : N) : v < 65536 -> acc false (num 2) pre (be16 v) v.
Proof. intro H. rewrite <- (be_be16 v H) at 2. apply acc_num. reflexivity. Qed.
Lemma acc_num4 (pre : bytes) (v : N) : v < 4294967296 -> acc false (num 4) pre (be32 v) v.
Proof. intro H. rewrite <- (be_be32 v H) at 2. apply acc_num. reflexivity. Qed.
Lemma acc_num8 (pre : bytes) (v : N) : v < 18446744073709551616 -> acc false (num 8) pre (be64 v) v.
Proof. intro H. rewrite <- (be_be64 v H) at 2. apply acc_num. reflexivity. Qed.

(* ---- <character-string>, rest ---- *)
Lemma acc_charstr (pre s : bytes) : lenN s <= 255 -> utf8_valid s = true -> acc false charstr pre (cstr s) s.
Proof.
  intros Hl Hu. unfold charstr, cstr.
  apply (acc_bind false (num 1) _ pre [lenN s] s (lenN s) s); [apply acc_num1|].
  apply (acc_bind_last false (octets (lenN s)) _ (pre ++ [lenN s]) s s s); [apply acc_octets; reflexivity|].
  rewrite Hu. apply acc_ret.
Qed.

Lemma acc_rest (pre x : bytes) : acc true rest pre x x.
Proof.
  intros post e He. unfold rest. subst e. assert (lenN pre <=? lenN pre + lenN x = true) as -> by lia.
  replace (lenN pre + lenN x - lenN pre) with (lenN x) by lia.
  apply (acc_octets (lenN x) pre x eq_refl). lia.
Qed.

(* ---- within ---- *)
Lemma acc_within {A} (p : P A) (pre w : bytes) (v : A) (n : N) :
  n = lenN w -> acc true p pre w v -> acc false (within n p) pre w v.
Proof.
  intros -> H post e He. unfold within.
  assert (lenN pre + lenN w <=? e = true) as -> by lia.
  rewrite (H post _ eq_refl), N.eqb_refl. reflexivity.
Qed.

(* ---- until_end / many_to_end: items that do not depend on what precedes them ---- *)
Definition cf {A} (p : P A) (w : bytes) (v : A) : Prop := forall pre, acc false p pre w v.

Lemma lenN_concat_cons (w : bytes) (ws : list bytes) : lenN (concat (w :: ws)) = lenN w + lenN (concat ws).
Proof. cbn [concat]. apply lenN_app. Qed.

Lemma until_end_items {A} (p : P A) : forall (ws : list bytes) (vs : list A) (fuel : nat) (pre post : bytes),
  Forall2 (fun w v => cf p w v /\ w <> []) ws vs -> (length ws < fuel)%nat ->
  until_end fuel p (pre ++ concat ws ++ post) (lenN pre) (lenN pre + lenN (concat ws))
  = Some (vs, lenN pre + lenN (concat ws)).
Proof.
  induction ws as [|w ws IH]; intros vs fuel pre post HF Hf; inversion HF as [|? v ? vs' [Hc Hne] HF']; subst.
  - destruct fuel as [|f]; [cbn [length] in Hf; lia|]. cbn [until_end concat].
    rewrite lenN_nil, N.add_0_r, N.eqb_refl. reflexivity.
  - destruct fuel as [|f]; [cbn [length] in Hf; lia|]. cbn [until_end].
    rewrite lenN_concat_cons.
    assert (lenN w <> 0) as Hw.
    { destruct w as [|b0 w0]; [congruence|]. rewrite lenN_cons. lia. }
    destruct (lenN pre =? lenN pre + (lenN w + lenN (concat ws))) eqn:E0; [lia|].
    cbn [concat]. rewrite <- app_assoc.
    rewrite (Hc pre (concat ws ++ post) (lenN pre + (lenN w + lenN (concat ws)))) by lia.
    specialize (IH vs' f (pre ++ w) post HF'). rewrite <- app_assoc, lenN_app in IH.
    rewrite N.add_assoc. rewrite IH by (cbn [length] in Hf; lia). reflexivity.
Qed.

Lemma acc_many {A} (p : P A) (ws : list bytes) (vs : list A) (pre : bytes) :
  Forall2 (fun w v => cf p w v /\ w <> []) ws vs -> acc true (many_to_end p) pre (concat ws) vs.
Proof.
  intros HF post e He. subst e. unfold many_to_end. apply until_end_items; [exact HF|].
  replace (lenN pre + lenN (concat ws) - lenN pre) with (lenN (concat ws)) by lia.
  assert (lenN ws <= lenN (concat ws)) as H; [|unfold lenN in *; lia].
  clear post. induction HF as [|w v ws' vs' [_ Hne] _ IH]; [cbn; lia|].
  rewrite lenN_concat_cons, lenN_cons. destruct w as [|b0 w0]; [congruence|]. rewrite lenN_cons. lia.
Qed.

Lemma Forall2_map_l {A B C} (R : B -> C -> Prop) (f : A -> B) (l : list A) (l' : list C) :
  Forall2 (fun x y => R (f x) y) l l' -> Forall2 R (map f l) l'.
Proof. induction 1; cbn [map]; constructor; assumption. Qed.
Lemma Forall2_diag {A} (R : A -> A -> Prop) (l : list A) : Forall (fun x => R x x) l -> Forall2 R l l.
Proof. induction 1; constructor; assumption. Qed.

Lemma cstr_ne (s : bytes) : cstr s <> [].
Proof. unfold cstr. cbn [app]. discriminate. Qed.
Lemma cf_charstr (s : bytes) : lenN s <= 255 -> utf8_valid s = true -> cf charstr (cstr s) s.
Proof. intros H1 H2 pre. apply acc_charstr; assumption. Qed.

(* ---- times: elements behind each other, each depending on everything before it ---- *)
Lemma acc_pre_eq {A} (E : bool) (p : P A) (pre pre' w : bytes) (v : A) :
  pre = pre' -> acc E p pre' w v -> acc E p pre w v.
Proof. intros ->. auto. Qed.

Lemma acc_times {A B} (R : bytes -> A -> bytes -> Prop) (p : P B) (Q : B -> A -> Prop) (bound : N) :
  forall (pre : bytes) (l : list A) (w : bytes),
  renders_seq R pre l w -> lenN w <= bound ->
  (forall pre x w, In x l -> R pre x w -> lenN w <= bound ->
     bytes_ok w /\ exists v, acc false p pre w v /\ Q v x) ->
  bytes_ok w /\ exists vs, acc false (times (length l) p) pre w vs /\ Forall2 Q vs l.
Proof.
  intros pre l w H. induction H as [pre|pre x xs w ws HR Hs IH]; intros Hlen Hp.
  - split; [apply bytes_ok_nil|]. exists []. split; [cbn [length times]; apply acc_ret|constructor].
  - rewrite lenN_app in Hlen.
    destruct (Hp pre x w (or_introl eq_refl) HR ltac:(lia)) as (Hbw & v & Hv & Qv).
    destruct IH as (Hbws & vs & Hvs & Qvs); [lia|intros pre' y w' Hy; apply Hp; right; exact Hy|].
    split; [apply bytes_ok_app; assumption|].
    exists (v :: vs). split; [|constructor; assumption].
    cbn [length times]. apply (acc_bind false p _ pre w ws v (v :: vs) Hv).
    apply (acc_bind_last false _ _ (pre ++ w) ws vs (v :: vs) Hvs). apply acc_ret.
Qed.
