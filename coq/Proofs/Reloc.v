(* C10, relocation, part 2: the simulation between a stand-alone encoder run and the same run started
   [d] octets further into a message.

   [reloc P s t]: the buffers are related by [bufrel d lo P]; the compression index of [t] is the index
   of [s] with every offset increased by [d] (same keys, same depths, same order); every recorded
   offset, shifted, still fits the 14 bits.

   The two runs can only be told apart near the 14-bit limit (an offset n passes a test that n + d
   fails).  [res_rel] therefore relates two outcomes as follows: either both succeed in related
   states with related values; or they differ, and then every successful side has already written
   past the limit ([big_s] / [big_t]).  Every encoder computation only extends the buffer, so once
   past the limit a run stays past it. *)
From DNS Require Import Model.Dec Model.Enc Proofs.ListN Proofs.NameLoop Proofs.EncTotal Proofs.EncLimits Proofs.RelocBuf.
Require Import ZArith ZifyBool ZifyN ZifyNat.
Local Open Scope N_scope.
Ltac Zify.zify_post_hook ::= Z.div_mod_to_equations.

(* ---- buffers never shrink ---- *)
Definition mono {A} (m : EM A) : Prop :=
  forall s, match m s with EOk _ s' => lenN (e_buf s) <= lenN (e_buf s') | _ => True end.
Definition fails {A} (m : EM A) : Prop :=
  forall s, match m s with EOk _ _ => False | _ => True end.

Lemma ext_mono {A} (m : EM A) : ext m -> mono m.
Proof.
  intros H s. specialize (H s). destruct (m s) as [a s'|e|x|]; try exact I.
  destruct H as (w & -> & _). rewrite lenN_app. lia.
Qed.
Lemma mono_bind {A B} (m : EM A) (f : A -> EM B) : mono m -> (forall a, mono (f a)) -> mono (ebind m f).
Proof.
  intros Hm Hf s. unfold ebind. specialize (Hm s). destruct (m s) as [a s1|e|x|]; try exact I.
  specialize (Hf a s1). destruct (f a s1) as [b s2|e|x|]; try exact I. lia.
Qed.
Lemma mono_fails {A} (m : EM A) : fails m -> mono m.
Proof. intros H s. specialize (H s). destruct (m s); [contradiction|exact I..]. Qed.
Lemma mono_ok {A} (m : EM A) s a s' : mono m -> m s = EOk a s' -> lenN (e_buf s) <= lenN (e_buf s').
Proof. intros H E. specialize (H s). rewrite E in H. exact H. Qed.

Lemma mono_set_u16 n i : mono (set_u16 n i).
Proof.
  intros s. unfold set_u16. cbv zeta. destruct (i + 2 - 1 <? lenN (e_buf s)) eqn:E; [|exact I].
  cbn [e_buf]. apply N.ltb_lt in E. rewrite lenN_patch; [lia|]. unfold lenN at 1. cbn [u16b length]. lia.
Qed.
Lemma mono_set_u8 n i : mono (set_u8 n i).
Proof.
  intros s. unfold set_u8. cbv zeta. destruct (i + 1 - 1 <? lenN (e_buf s)) eqn:E; [|exact I].
  cbn [e_buf]. apply N.ltb_lt in E. rewrite lenN_patch; [lia|]. unfold lenN at 1. cbn [u8b length]. lia.
Qed.
Lemma mono_set_length_index li : mono (set_length_index li).
Proof.
  unfold set_length_index. apply mono_bind; [apply ext_mono, ext_buf_len|]. intros len.
  destruct (len <? li + 2); [apply mono_fails; intros s; exact I|]. cbv zeta.
  destruct (len - (li + 2) <? POW16); [apply mono_set_u16|apply mono_fails; intros s; exact I].
Qed.
Lemma mono_set_address_length_index neg ali : mono (set_address_length_index neg ali).
Proof.
  unfold set_address_length_index. apply mono_bind; [apply ext_mono, ext_buf_len|]. intros len.
  destruct (len <? ali + 1); [apply mono_fails; intros s; exact I|]. cbv zeta.
  destruct (len - (ali + 1) <? 256); [|apply mono_fails; intros s; exact I].
  destruct (cmp_apply OP_apl_len (len - (ali + 1)) APL_NEGATION_MASK); [apply mono_set_u8|apply mono_fails; intros s; exact I].
Qed.
Lemma mono_create_length_index : mono create_length_index.
Proof. apply ext_mono. unfold create_length_index. ext_go. Qed.

Lemma mono_emap {A} (f : A -> EM unit) (l : list A) : (forall x, mono (f x)) -> mono (emap f l).
Proof.
  intros Mf. induction l as [|y r IH]; cbn [emap]; [apply ext_mono, ext_ret|].
  apply mono_bind; [apply Mf|]. intros _. exact IH.
Qed.

Create HintDb monodb.
#[export] Hint Resolve mono_set_length_index mono_set_address_length_index mono_set_u16 mono_set_u8
  mono_create_length_index : monodb.

Ltac mono_go :=
  first
  [ solve [apply ext_mono; ext_go]
  | lazymatch goal with
    | |- mono (ebind _ _) => apply mono_bind; [mono_go|intros ?; mono_go]
    | |- mono (if ?b then _ else _) => destruct b; mono_go
    | |- mono (match ?o with Some _ => _ | None => _ end) => destruct o; mono_go
    | |- _ => solve [auto with monodb | apply mono_fails; intros ?; exact I]
    end ].

Section Reloc.
Variables d lo : N.

Definition shift_entry (e : name * (N * N)) : name * (N * N) := (fst e, (fst (snd e) + d, snd (snd e))).
Definition shift_loc (p : name * N) : name * N := (fst p, snd p + d).
Definition idx_ok (idx : list (name * (N * N))) : Prop := forall e, In e idx -> fst (snd e) + d <= 16383.
Definition loc_ok (l : list (name * N)) : Prop := forall p, In p l -> snd p + d <= 16383.

Definition reloc (P : list N) (s t : est) : Prop :=
  bufrel d lo P (e_buf s) (e_buf t) /\ e_idx t = map shift_entry (e_idx s) /\ idx_ok (e_idx s).

Definition big_s (s : est) : Prop := 16384 < lenN (e_buf s) + d.
Definition big_t (t : est) : Prop := 16384 < lenN (e_buf t).

Definition res_rel {A B} (V : A -> B -> Prop) (P : list N) (n0 : N) (r1 : eres A) (r2 : eres B) : Prop :=
  match r1, r2 with
  | EOk a s', EOk b t' =>
    (big_s s' /\ big_t t') \/
    (V a b /\ n0 <= lenN (e_buf s') /\
     exists Pn, reloc (Pn ++ P) s' t' /\ forall i, In i Pn -> n0 <= i)
  | EOk _ s', _ => big_s s'
  | _, EOk _ t' => big_t t'
  | _, _ => True
  end.

(* protected positions: inside the buffer and not part of a pointer *)
Definition prot (L P : list N) (s : est) : Prop :=
  forall li, In li L -> li < lenN (e_buf s) /\ free P li.

Definition simL {A B} (L : list N) (V : A -> B -> Prop) (m1 : EM A) (m2 : EM B) : Prop :=
  forall P s t, reloc P s t -> prot L P s -> res_rel V P (lenN (e_buf s)) (m1 s) (m2 t).
Definition sim {A B} (V : A -> B -> Prop) (m1 : EM A) (m2 : EM B) : Prop := simL [] V m1 m2.

Definition Vu (a b : unit) : Prop := True.
Definition Voff (a b : N) : Prop := b = a + d.

Lemma reloc_len P s t : reloc P s t -> lenN (e_buf t) = lenN (e_buf s) + d.
Proof. intros ((H & _) & _). exact H. Qed.

Lemma reloc_inside P s t i : reloc P s t -> In i P -> i + 2 <= lenN (e_buf s).
Proof. intros ((_ & _ & H) & _) Hi. eapply ptr_pair_inside. apply H. exact Hi. Qed.

(* ---- res_rel ---- *)
Lemma res_rel_big {A B} (V : A -> B -> Prop) P n0 (m1 : EM A) (m2 : EM B) s t :
  mono m1 -> mono m2 -> big_s s -> big_t t -> res_rel V P n0 (m1 s) (m2 t).
Proof.
  intros H1 H2 Hs Ht. specialize (H1 s). specialize (H2 t). unfold res_rel, big_s, big_t in *.
  destruct (m1 s) as [a s'|e|x|], (m2 t) as [b t'|e'|y|]; try exact I; try lia.
Qed.

Lemma res_rel_frame {A B} (V : A -> B -> Prop) P Pn n0 n1 (r1 : eres A) (r2 : eres B) :
  res_rel V (Pn ++ P) n1 r1 r2 -> n0 <= n1 -> (forall i, In i Pn -> n0 <= i) -> res_rel V P n0 r1 r2.
Proof.
  intros H Hn HPn. unfold res_rel in *.
  destruct r1 as [a s'|e|x|], r2 as [b t'|e'|y|]; try exact H.
  destruct H as [H|(HV & Hlen & Pn' & HR & HP')]; [left; exact H|right].
  split; [exact HV|]. split; [lia|]. exists (Pn' ++ Pn). split; [rewrite <- app_assoc; exact HR|].
  intros i Hi. apply in_app_or in Hi. destruct Hi as [Hi|Hi]; [specialize (HP' i Hi); lia|apply HPn; exact Hi].
Qed.

Lemma res_rel_bind {A B A' B'} (V : A -> B -> Prop) (W : A' -> B' -> Prop) P n0
      (m1 : EM A) (m2 : EM B) (f : A -> EM A') (g : B -> EM B') s t :
  res_rel V P n0 (m1 s) (m2 t) ->
  (forall a, mono (f a)) -> (forall b, mono (g b)) ->
  (forall a b s1 t1 Pn, m1 s = EOk a s1 -> m2 t = EOk b t1 -> V a b -> n0 <= lenN (e_buf s1) ->
     reloc (Pn ++ P) s1 t1 -> (forall i, In i Pn -> n0 <= i) ->
     res_rel W (Pn ++ P) (lenN (e_buf s1)) (f a s1) (g b t1)) ->
  res_rel W P n0 (ebind m1 f s) (ebind m2 g t).
Proof.
  intros H Hf Hg Hk. unfold ebind.
  destruct (m1 s) as [a s1|e|x|] eqn:E1, (m2 t) as [b t1|e'|y|] eqn:E2; cbn [res_rel] in H; try exact I.
  - destruct H as [[Hs Ht]|(HV & Hlen & Pn & HR & HPn)].
    + apply res_rel_big; [apply Hf|apply Hg|exact Hs|exact Ht].
    + eapply res_rel_frame; [apply (Hk a b s1 t1 Pn eq_refl eq_refl HV Hlen HR HPn)|exact Hlen|exact HPn].
  - pose proof (Hf a s1) as M. unfold res_rel, big_s in *. destruct (f a s1) as [a' s2|e0|x0|]; try exact I. lia.
  - pose proof (Hf a s1) as M. unfold res_rel, big_s in *. destruct (f a s1) as [a' s2|e0|x0|]; try exact I. lia.
  - pose proof (Hf a s1) as M. unfold res_rel, big_s in *. destruct (f a s1) as [a' s2|e0|x0|]; try exact I. lia.
  - pose proof (Hg b t1) as M. unfold res_rel, big_t in *. destruct (g b t1) as [b' t2|e0|x0|]; try exact I. lia.
  - pose proof (Hg b t1) as M. unfold res_rel, big_t in *. destruct (g b t1) as [b' t2|e0|x0|]; try exact I. lia.
  - pose proof (Hg b t1) as M. unfold res_rel, big_t in *. destruct (g b t1) as [b' t2|e0|x0|]; try exact I. lia.
Qed.

(* ---- closure of simL ---- *)
Lemma simL_weaken {A B} L (V : A -> B -> Prop) (m1 : EM A) (m2 : EM B) : sim V m1 m2 -> simL L V m1 m2.
Proof. intros H P s t HR _. apply H; [exact HR|]. intros li []. Qed.

Lemma simL_pointwise {A B} L (V : A -> B -> Prop) (m1 m1' : EM A) (m2 m2' : EM B) :
  (forall s, m1 s = m1' s) -> (forall s, m2 s = m2' s) -> simL L V m1' m2' -> simL L V m1 m2.
Proof. intros E1 E2 H P s t HR HP. rewrite E1, E2. apply H; assumption. Qed.

Lemma prot_frame L P Pn s s1 : prot L P s -> lenN (e_buf s) <= lenN (e_buf s1) ->
  (forall i, In i Pn -> lenN (e_buf s) <= i) -> prot L (Pn ++ P) s1.
Proof.
  intros HP Hlen HPn li Hli. destruct (HP li Hli) as [H1 H2]. split; [lia|].
  apply free_app. split; [|exact H2]. intros j Hj. specialize (HPn j Hj). lia.
Qed.

Lemma simL_bind {A B A' B'} L (V : A -> B -> Prop) (W : A' -> B' -> Prop)
      (m1 : EM A) (m2 : EM B) (f : A -> EM A') (g : B -> EM B') :
  simL L V m1 m2 -> (forall a, mono (f a)) -> (forall b, mono (g b)) ->
  (forall a b, V a b -> simL L W (f a) (g b)) -> simL L W (ebind m1 f) (ebind m2 g).
Proof.
  intros Hm Hf Hg Hk P s t HR HP. apply (res_rel_bind V); [apply Hm; assumption|exact Hf|exact Hg|].
  intros a b s1 t1 Pn _ _ HV Hlen HR1 HPn. apply Hk; [exact HV|exact HR1|].
  eapply prot_frame; eassumption.
Qed.

Lemma simL_bindu {A' B'} L (W : A' -> B' -> Prop) (m1 m2 : EM unit) (f : unit -> EM A') (g' : unit -> EM B') :
  simL L Vu m1 m2 -> (forall a, mono (f a)) -> (forall b, mono (g' b)) ->
  simL L W (f tt) (g' tt) -> simL L W (ebind m1 f) (ebind m2 g').
Proof.
  intros Hm Hf Hg Hk. apply (simL_bind L Vu); [exact Hm|exact Hf|exact Hg|]. intros [] [] _. exact Hk.
Qed.

Lemma simL_fails {A B} L (V : A -> B -> Prop) (m1 : EM A) (m2 : EM B) : fails m1 -> fails m2 -> simL L V m1 m2.
Proof.
  intros H1 H2 P s t _ _. specialize (H1 s). specialize (H2 t). unfold res_rel.
  destruct (m1 s), (m2 t); try contradiction; exact I.
Qed.

Lemma res_rel_same {A B} (V : A -> B -> Prop) P s s' t' a b :
  V a b -> reloc P s' t' -> lenN (e_buf s) <= lenN (e_buf s') ->
  res_rel V P (lenN (e_buf s)) (EOk a s') (EOk b t').
Proof.
  intros HV HR Hlen. cbn [res_rel]. right. split; [exact HV|]. split; [exact Hlen|].
  exists []. split; [exact HR|]. intros i [].
Qed.

Lemma simL_ret {A B} L (V : A -> B -> Prop) a b : V a b -> simL L V (eret a) (eret b).
Proof. intros HV P s t HR _. cbn [eret]. apply res_rel_same; [exact HV|exact HR|lia]. Qed.

Lemma simL_emap {A} L (f1 f2 : A -> EM unit) (l : list A) :
  (forall x, mono (f1 x)) -> (forall x, mono (f2 x)) ->
  (forall x, simL L Vu (f1 x) (f2 x)) -> simL L Vu (emap f1 l) (emap f2 l).
Proof.
  intros M1 M2 H. induction l as [|x r IH]; cbn [emap]; [apply simL_ret; exact I|].
  apply simL_bindu; [apply H|intros _; apply mono_emap; exact M1|intros _; apply mono_emap; exact M2|exact IH].
Qed.

(* ---- primitives ---- *)
Lemma sim_put b : sim Vu (put b) (put b).
Proof.
  intros P s t (HB & HI & HK) _. unfold put. apply res_rel_same; [exact I| |cbn [e_buf]; rewrite lenN_app; lia].
  split; [cbn [e_buf]; apply bufrel_app; exact HB|]. split; [exact HI|exact HK].
Qed.
Lemma sim_eu8 n : sim Vu (eu8 n) (eu8 n). Proof. apply sim_put. Qed.
Lemma sim_eu16 n : sim Vu (eu16 n) (eu16 n). Proof. apply sim_put. Qed.
Lemma sim_eu32 n : sim Vu (eu32 n) (eu32 n). Proof. apply sim_put. Qed.
Lemma sim_eu64 n : sim Vu (eu64 n) (eu64 n). Proof. apply sim_put. Qed.

Lemma sim_buf_len : sim Voff buf_len buf_len.
Proof.
  intros P s t HR _. unfold buf_len. apply res_rel_same; [|exact HR|lia].
  unfold Voff. apply (reloc_len P). exact HR.
Qed.

Lemma sim_get_offset : sim Voff get_offset get_offset.
Proof.
  intros P s t HR _. pose proof (reloc_len _ _ _ HR) as HL.
  unfold get_offset, buf_len, ebind. rewrite HL, POW16_val.
  destruct (lenN (e_buf s) <? 65536) eqn:E1, (lenN (e_buf s) + d <? 65536) eqn:E2; cbn [eret efail res_rel].
  - right. split; [reflexivity|]. split; [lia|]. exists []. split; [exact HR|]. intros i [].
  - unfold big_s. apply N.ltb_ge in E2. lia.
  - unfold big_t. apply N.ltb_ge in E1. apply N.ltb_lt in E2. lia.
  - exact I.
Qed.

Lemma sim_estring b : sim Vu (estring b) (estring b).
Proof.
  unfold estring. cbv zeta. destruct (cmp_apply OP_string_len (lenN b) STRING_MAX).
  - apply simL_fails; intros s; exact I.
  - apply simL_bindu; [apply sim_eu8|intros _; mono_go|intros _; mono_go|apply sim_put].
Qed.

Lemma sim_log_name n : sim Vu (log_name n) (log_name n).
Proof.
  intros P s t (HB & HI & HK) _. unfold log_name. apply res_rel_same; [exact I| |cbn [e_buf]; lia].
  split; [exact HB|]. split; [exact HI|exact HK].
Qed.

Lemma idx_lookup_shift (n : name) (idx : list (name * (N * N))) :
  idx_lookup n (map shift_entry idx) = option_map (fun v : N * N => (fst v + d, snd v)) (idx_lookup n idx).
Proof.
  induction idx as [|[k v] r IH]; [reflexivity|].
  cbn [map shift_entry idx_lookup fst snd]. destruct (name_eqb n k); [reflexivity|exact IH].
Qed.

Lemma sim_compress (n : name) : sim (@eq (option N)) (compress n) (compress n).
Proof.
  intros P s t HR _. pose proof HR as (HB & HI & HK). unfold compress. rewrite HI, idx_lookup_shift.
  destruct (idx_lookup n (e_idx s)) as [[index rec]|] eqn:EL; cbn [option_map fst snd].
  2:{ apply res_rel_same; [reflexivity|exact HR|lia]. }
  destruct (idx_lookup_in _ _ _ EL) as (k & Hin & _). pose proof (HK _ Hin) as Hsmall. cbn [fst snd] in Hsmall.
  rewrite OP_compress_offset_val, ENC_MAX_OFFSET_val, OP_compress_rec_val, MAX_RECURSION_val. cbn [cmp_apply].
  destruct (16383 <? index) eqn:E1; [apply N.ltb_lt in E1; lia|].
  destruct (16383 <? index + d) eqn:E2; [apply N.ltb_lt in E2; lia|].
  destruct (16 <=? rec).
  { apply res_rel_same; [reflexivity|exact HR|lia]. }
  unfold ebind, eu16, put, eret. rewrite !lor_ptr by lia. cbn [res_rel]. right.
  split; [reflexivity|]. split; [cbn [e_buf]; rewrite lenN_app; lia|].
  exists [lenN (e_buf s)]. split; [|intros i [<-|[]]; lia].
  split; [cbn [e_buf app]; apply bufrel_ptr; [exact HB|exact Hsmall]|]. split; [exact HI|exact HK].
Qed.

Lemma sim_merge_index (l1 : list (name * N)) (r : N) : loc_ok l1 ->
  sim Vu (merge_index l1 r) (merge_index (map shift_loc l1) r).
Proof.
  intros Hl P s t (HB & HI & HK) _. unfold merge_index.
  destruct (cmp_apply OP_merge_rec r DOMAIN_NAME_MAX_RECURSION); [exact I|].
  apply res_rel_same; [exact I| |cbn [e_buf]; lia].
  split; [exact HB|]. cbn [e_idx]. split.
  - rewrite HI, map_app, !map_map. f_equal.
  - intros e He. apply in_app_or in He. destruct He as [He|He]; [|apply HK; exact He].
    apply in_map_iff in He. destruct He as (p & <- & Hp). cbn [fst snd]. apply Hl. exact Hp.
Qed.

Lemma sim_elabel (l : label) : sim Voff (elabel l) (elabel l).
Proof.
  unfold elabel. apply (simL_bind [] Voff); [apply sim_get_offset|intros a; mono_go|intros b; mono_go|].
  intros a b Hab. apply simL_bindu; [apply sim_estring|intros _; mono_go|intros _; mono_go|].
  apply simL_ret. exact Hab.
Qed.

Lemma elabel_lt (l : label) s a s' : elabel l s = EOk a s' -> a < lenN (e_buf s').
Proof.
  unfold elabel, get_offset, buf_len, ebind.
  destruct (lenN (e_buf s) <? POW16); cbn [eret efail]; [|discriminate].
  unfold estring. cbv zeta. destruct (cmp_apply OP_string_len (lenN l) STRING_MAX); [discriminate|].
  unfold ebind, eu8, put, eret. cbn [e_buf]. intros E. inversion E; subst. cbn [e_buf].
  rewrite !lenN_app. unfold u8b. rewrite lenN_cons. lia.
Qed.

(* ---- the name writer ---- *)
Lemma sim_loop (labels : name) : forall l1 : list (name * N), loc_ok l1 ->
  sim Vu (enc_name_loop labels l1) (enc_name_loop labels (map shift_loc l1)).
Proof.
  induction labels as [|l rest IH]; intros l1 Hl1; cbn [enc_name_loop].
  - apply simL_bindu; [apply sim_estring|intros _; mono_go|intros _; mono_go|].
    apply sim_merge_index. exact Hl1.
  - intros P s t HR HP. apply (res_rel_bind (@eq (option N))); [apply sim_compress; assumption| | |].
    + intros [r|]; [mono_go|]. apply mono_bind; [mono_go|]. intros i. apply ext_mono, ext_enc_name_loop.
    + intros [r|]; [mono_go|]. apply mono_bind; [mono_go|]. intros i. apply ext_mono, ext_enc_name_loop.
    + intros a b s1 t1 Pn _ _ <- Hlen1 HR1 HPn1. destruct a as [rec|].
      * apply sim_merge_index; [exact Hl1|exact HR1|]. intros li [].
      * apply (res_rel_bind Voff); [apply sim_elabel; [exact HR1|intros li []]| | |].
        { intros i. apply ext_mono, ext_enc_name_loop. }
        { intros i. apply ext_mono, ext_enc_name_loop. }
        intros a b s2 t2 Pn2 E3 _ Hab Hlen2 HR2 HPn2. unfold Voff in Hab. subst b.
        pose proof (elabel_lt _ _ _ _ E3) as Hlt. pose proof (reloc_len _ _ _ HR2) as HL2.
        rewrite OP_index_offset_val, ENC_MAX_OFFSET_val. cbn [cmp_apply].
        destruct (a <=? 16383) eqn:E1, (a + d <=? 16383) eqn:E2.
        -- change ((l :: rest, a + d) :: map shift_loc l1) with (map shift_loc ((l :: rest, a) :: l1)).
           apply IH; [|exact HR2|intros li []].
           intros p [<-|Hp]; [cbn [snd]; apply N.leb_le in E2; exact E2|apply Hl1; exact Hp].
        -- apply N.leb_gt in E2.
           apply res_rel_big; [apply ext_mono, ext_enc_name_loop|apply ext_mono, ext_enc_name_loop|unfold big_s; lia|unfold big_t; lia].
        -- apply N.leb_gt in E1. apply N.leb_le in E2. lia.
        -- apply IH; [exact Hl1|exact HR2|intros li []].
Qed.

Theorem sim_enc_domain_name (n : name) : sim Vu (enc_domain_name n) (enc_domain_name n).
Proof.
  unfold enc_domain_name.
  apply simL_bindu; [apply sim_log_name|intros _; apply ext_mono, ext_enc_name_loop|intros _; apply ext_mono, ext_enc_name_loop|].
  change (@nil (name * N)) with (map shift_loc []) at 2. apply sim_loop. intros p [].
Qed.

(* ---- length slots ---- *)
Lemma reloc_put P s t b : reloc P s t -> reloc P (sput s b) (sput t b).
Proof.
  intros (HB & HI & HK). split; [cbn [sput e_buf]; apply bufrel_app; exact HB|]. split; [exact HI|exact HK].
Qed.

Lemma simL_create {A' B'} L (W : A' -> B' -> Prop) (f : N -> EM A') (g : N -> EM B') :
  (forall li, simL (li :: li + 1 :: L) W (f li) (g (li + d))) ->
  simL L W (ebind create_length_index f) (ebind create_length_index g).
Proof.
  intros H P s t HR HP. rewrite !ebind_create. rewrite (reloc_len _ _ _ HR).
  assert (HL2 : lenN (e_buf (sput s [0; 0])) = lenN (e_buf s) + 2) by (cbn [sput e_buf]; rewrite lenN_app; reflexivity).
  eapply (res_rel_frame W P []); [apply H; [apply reloc_put; exact HR|]| |intros i []].
  - intros li [<-|[<-|Hli]]; rewrite HL2.
    + split; [lia|]. intros j Hj. pose proof (reloc_inside _ _ _ _ HR Hj). lia.
    + split; [lia|]. intros j Hj. pose proof (reloc_inside _ _ _ _ HR Hj). lia.
    + destruct (HP li Hli) as [H1 H2]. split; [lia|exact H2].
  - rewrite HL2. lia.
Qed.

Lemma simL_set_length_index L li : In li L -> In (li + 1) L ->
  simL L Vu (set_length_index li) (set_length_index (li + d)).
Proof.
  intros H1 H2 P s t HR HP. pose proof (reloc_len _ _ _ HR) as HL.
  destruct (HP _ H1) as [Hl1 Hf1]. destruct (HP _ H2) as [Hl2 Hf2].
  unfold set_length_index, buf_len, ebind. rewrite HL.
  destruct (lenN (e_buf s) <? li + 2) eqn:E1; [apply N.ltb_lt in E1; lia|].
  destruct (lenN (e_buf s) + d <? li + d + 2) eqn:E2; [apply N.ltb_lt in E2; lia|].
  cbv zeta. replace (lenN (e_buf s) + d - (li + d + 2)) with (lenN (e_buf s) - (li + 2)) by lia.
  destruct (lenN (e_buf s) - (li + 2) <? POW16); [|exact I].
  unfold set_u16. cbv zeta. rewrite HL.
  destruct (li + 2 - 1 <? lenN (e_buf s)) eqn:E3; [|apply N.ltb_ge in E3; lia].
  destruct (li + d + 2 - 1 <? lenN (e_buf s) + d) eqn:E4; [|apply N.ltb_ge in E4; lia].
  assert (HX : forall v, lenN (u16b v) = 2) by reflexivity.
  apply res_rel_same; [exact I| |cbn [e_buf]; rewrite lenN_patch; rewrite ?HX; lia].
  destruct HR as (HB & HI & HK). split; [|split; [exact HI|exact HK]]. cbn [e_buf].
  apply bufrel_patch; [exact HB|rewrite HX; lia|]. rewrite HX. intros j J1 J2.
  assert (j = li \/ j = li + 1) as [->| ->] by lia; assumption.
Qed.

Lemma simL_create8 {A' B'} L (W : A' -> B' -> Prop) (f : N -> EM A') (g : N -> EM B') :
  (forall li, simL (li :: L) W (f li) (g (li + d))) ->
  simL L W (ebind buf_len (fun li => ebind (eu8 0) (fun _ => f li)))
           (ebind buf_len (fun li => ebind (eu8 0) (fun _ => g li))).
Proof.
  intros H P s t HR HP.
  change (res_rel W P (lenN (e_buf s)) (f (lenN (e_buf s)) (sput s (u8b 0))) (g (lenN (e_buf t)) (sput t (u8b 0)))).
  rewrite (reloc_len _ _ _ HR).
  assert (HL2 : lenN (e_buf (sput s (u8b 0))) = lenN (e_buf s) + 1) by (cbn [sput e_buf]; rewrite lenN_app; reflexivity).
  eapply (res_rel_frame W P []); [apply H; [apply reloc_put; exact HR|]| |intros i []].
  - intros li [<-|Hli]; rewrite HL2.
    + split; [lia|]. intros j Hj. pose proof (reloc_inside _ _ _ _ HR Hj). lia.
    + destruct (HP li Hli) as [H1 H2]. split; [lia|exact H2].
  - rewrite HL2. lia.
Qed.

Lemma simL_set_address_length_index L neg ali : In ali L ->
  simL L Vu (set_address_length_index neg ali) (set_address_length_index neg (ali + d)).
Proof.
  intros H1 P s t HR HP. pose proof (reloc_len _ _ _ HR) as HL.
  destruct (HP _ H1) as [Hl1 Hf1].
  unfold set_address_length_index, buf_len, ebind. rewrite HL.
  destruct (lenN (e_buf s) <? ali + 1) eqn:E1; [apply N.ltb_lt in E1; lia|].
  destruct (lenN (e_buf s) + d <? ali + d + 1) eqn:E2; [apply N.ltb_lt in E2; lia|].
  cbv zeta. replace (lenN (e_buf s) + d - (ali + d + 1)) with (lenN (e_buf s) - (ali + 1)) by lia.
  destruct (lenN (e_buf s) - (ali + 1) <? 256); [|exact I].
  destruct (cmp_apply OP_apl_len (lenN (e_buf s) - (ali + 1)) APL_NEGATION_MASK); [|exact I].
  unfold set_u8. cbv zeta. rewrite HL.
  destruct (ali + 1 - 1 <? lenN (e_buf s)) eqn:E3; [|apply N.ltb_ge in E3; lia].
  destruct (ali + d + 1 - 1 <? lenN (e_buf s) + d) eqn:E4; [|apply N.ltb_ge in E4; lia].
  assert (HX : forall v, lenN (u8b v) = 1) by reflexivity.
  apply res_rel_same; [exact I| |cbn [e_buf]; rewrite lenN_patch; rewrite ?HX; lia].
  destruct HR as (HB & HI & HK). split; [|split; [exact HI|exact HK]]. cbn [e_buf].
  apply bufrel_patch; [exact HB|rewrite HX; lia|]. rewrite HX. intros j J1 J2.
  assert (j = ali) as -> by lia. exact Hf1.
Qed.

End Reloc.
