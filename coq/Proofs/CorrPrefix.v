(* CorrPrefix — the bit-level prefix property of C12 ([prefix_ok]: no address bit at or beyond the
   prefix length) is the arithmetic one used by the reference specification:
   [(be octets) mod 2^(8*size - prefix) = 0]. *)
From Coq Require Import ZArith ZifyBool ZifyN ZifyNat.
From DNS Require Import Model.Dec Proofs.DecBase Proofs.C12.
Local Open Scope N_scope.

(* ================================================================================================ *)
(* 1. Big-endian composition is positional                                                           *)
(* ================================================================================================ *)

Lemma pow2_8_succ (n : N) : 2 ^ (8 * (n + 1)) = 2 ^ (8 * n) * 256.
Proof.
  replace (8 * (n + 1)) with (8 * n + 8) by lia.
  rewrite N.pow_add_r. reflexivity.
Qed.

Lemma len8_cons (x : N) (l : bytes) : 8 * lenN (x :: l) = 8 * lenN l + 8.
Proof. unfold lenN. cbn [length]. lia. Qed.

Lemma be_join_lin : forall (l : bytes) (acc : N), be_join l acc = acc * 2 ^ (8 * lenN l) + be l.
Proof.
  induction l as [|b l IH]; intros acc.
  - unfold be. cbn [be_join]. change (2 ^ (8 * lenN (@nil N))) with 1. lia.
  - unfold be. cbn [be_join]. rewrite (IH (acc * 256 + b)), (IH (0 * 256 + b)).
    rewrite len8_cons, N.pow_add_r. change (2 ^ 8) with 256.
    set (P := 2 ^ (8 * lenN l)). set (B := be l). lia.
Qed.

Lemma be_join_app : forall (x y : bytes) (acc : N), be_join (x ++ y) acc = be_join y (be_join x acc).
Proof.
  induction x as [|b x IH]; intros y acc; cbn [app be_join]; [reflexivity|]. apply IH.
Qed.

Lemma be_nil : be [] = 0.
Proof. reflexivity. Qed.

Lemma be_cons (o : N) (l : bytes) : be (o :: l) = o * 2 ^ (8 * lenN l) + be l.
Proof. unfold be at 1. cbn [be_join]. rewrite be_join_lin. lia. Qed.

Lemma be_app (x y : bytes) : be (x ++ y) = be x * 2 ^ (8 * lenN y) + be y.
Proof. unfold be at 1. rewrite be_join_app, be_join_lin. reflexivity. Qed.

Lemma be_snoc (l : bytes) (x : N) : be (l ++ [x]) = be l * 256 + x.
Proof. rewrite be_app. unfold be at 2. cbn [be_join]. change (2 ^ (8 * lenN [x])) with 256. lia. Qed.

Lemma be_lt (l : bytes) : Forall (fun o => o < 256) l -> be l < 2 ^ (8 * lenN l).
Proof.
  induction l as [|o l IH]; intros Hl.
  - change (be []) with 0. change (2 ^ (8 * lenN (@nil N))) with 1. lia.
  - inversion Hl as [|o' l' Ho Hl']; subst. specialize (IH Hl').
    rewrite be_cons, len8_cons, N.pow_add_r. change (2 ^ 8) with 256.
    set (P := 2 ^ (8 * lenN l)) in *. set (B := be l) in *. nia.
Qed.

Lemma be_zeros (k : nat) : be (zeros k) = 0.
Proof.
  induction k as [|k IH]; cbn [zeros]; [reflexivity|]. rewrite be_cons, IH. lia.
Qed.

(* ================================================================================================ *)
(* 2. Bits of a big-endian number                                                                    *)
(* ================================================================================================ *)

(* bits of [a * 2^k + b] for [b < 2^k]: the low [k] bits are those of [b], the rest those of [a] *)
Lemma testbit_join (a b k j : N) : b < 2 ^ k ->
  N.testbit (a * 2 ^ k + b) j = if j <? k then N.testbit b j else N.testbit a (j - k).
Proof.
  intros Hb. assert (2 ^ k <> 0) as Hk by (apply N.pow_nonzero; lia).
  destruct (j <? k) eqn:E; [apply N.ltb_lt in E | apply N.ltb_ge in E].
  - rewrite <- (N.mod_pow2_bits_low (a * 2 ^ k + b) k j E).
    rewrite N.add_comm, N.mod_add by exact Hk. rewrite N.mod_small by exact Hb. reflexivity.
  - replace j with ((j - k) + k) at 1 by lia. rewrite <- N.div_pow2_bits.
    rewrite N.div_add_l by exact Hk. rewrite N.div_small by exact Hb. rewrite N.add_0_r. reflexivity.
Qed.

Lemma mod_pow2_zero_bits (x k : N) :
  x mod 2 ^ k = 0 <-> (forall j, j < k -> N.testbit x j = false).
Proof.
  split.
  - intros H j Hj. rewrite <- (N.mod_pow2_bits_low x k j Hj), H. apply N.bits_0.
  - intros H. apply N.bits_inj. intros j. rewrite N.bits_0.
    destruct (j <? k) eqn:E; [apply N.ltb_lt in E | apply N.ltb_ge in E].
    + rewrite N.mod_pow2_bits_low by exact E. apply H. exact E.
    + apply N.mod_pow2_bits_high. exact E.
Qed.

Ltac Zify.zify_post_hook ::= Z.div_mod_to_equations.

(* address bit [i] (from the most significant end) is bit [8*len - 1 - i] of the big-endian number *)
Lemma addr_bit_be : forall (oct : bytes) (i : N),
  Forall (fun o => o < 256) oct -> i < 8 * lenN oct ->
  addr_bit oct i = N.testbit (be oct) (8 * lenN oct - 1 - i).
Proof.
  induction oct as [|o r IH]; intros i Hoct Hi.
  - change (lenN (@nil N)) with 0 in Hi. lia.
  - inversion Hoct as [|o' r' Ho Hr]; subst.
    rewrite be_cons, len8_cons. rewrite len8_cons in Hi.
    rewrite testbit_join by (apply be_lt; exact Hr).
    unfold addr_bit.
    destruct (8 * lenN r + 8 - 1 - i <? 8 * lenN r) eqn:E; [apply N.ltb_lt in E | apply N.ltb_ge in E].
    + assert (8 <= i) as Hi8 by lia.
      assert (i / 8 = (i - 8) / 8 + 1) as Hq by lia.
      assert (i mod 8 = (i - 8) mod 8) as Hm by lia.
      rewrite Hq, Hm.
      replace (N.to_nat ((i - 8) / 8 + 1)) with (S (N.to_nat ((i - 8) / 8))) by lia.
      cbn [nth]. specialize (IH (i - 8) Hr ltac:(lia)). unfold addr_bit in IH. rewrite IH.
      f_equal. lia.
    + assert (i < 8) as Hi8 by lia.
      assert (i / 8 = 0) as Hq by lia.
      assert (i mod 8 = i) as Hm by lia.
      rewrite Hq, Hm. change (N.to_nat 0) with 0%nat. cbn [nth]. f_equal. lia.
Qed.

(* bit [j] of [be oct] is bit [j mod 8] of octet number [lenN oct - 1 - j / 8] *)
Lemma testbit_be (oct : bytes) (j : N) :
  Forall (fun o => o < 256) oct -> j < 8 * lenN oct ->
  N.testbit (be oct) j = N.testbit (nth (N.to_nat (lenN oct - 1 - j / 8)) oct 0) (j mod 8).
Proof.
  intros Hoct Hj.
  pose proof (addr_bit_be oct (8 * lenN oct - 1 - j) Hoct ltac:(lia)) as H.
  replace (8 * lenN oct - 1 - (8 * lenN oct - 1 - j)) with j in H by lia.
  rewrite <- H. unfold addr_bit.
  set (L := lenN oct) in *.
  assert ((8 * L - 1 - j) / 8 = L - 1 - j / 8) as -> by lia.
  assert (7 - (8 * L - 1 - j) mod 8 = j mod 8) as -> by lia.
  reflexivity.
Qed.

Ltac Zify.zify_post_hook ::= idtac.

(* ================================================================================================ *)
(* 3. The bit-level prefix property is the arithmetic one                                            *)
(* ================================================================================================ *)

(* general: any octet string *)
Lemma prefix_bits_mod (oct : bytes) (p : N) :
  Forall (fun o => o < 256) oct -> p <= 8 * lenN oct ->
  ((forall i, p <= i < 8 * lenN oct -> addr_bit oct i = false) <->
   be oct mod 2 ^ (8 * lenN oct - p) = 0).
Proof.
  intros Hoct Hp. rewrite mod_pow2_zero_bits. split.
  - intros H j Hj. specialize (H (8 * lenN oct - 1 - j) ltac:(lia)).
    rewrite (addr_bit_be oct _ Hoct) in H by lia.
    replace (8 * lenN oct - 1 - (8 * lenN oct - 1 - j)) with j in H by lia. exact H.
  - intros H i Hi. rewrite (addr_bit_be oct _ Hoct) by lia. apply H. lia.
Qed.

Lemma addr_wf_size (a : addr) : addr_wf a -> lenN (a_oct a) = addr_size a.
Proof.
  intros [[[Hf Hl]|[Hf Hl]] _]; unfold addr_size; rewrite Hf, Hl; reflexivity.
Qed.

Lemma prefix_ok_mod (a : addr) (p : N) : addr_wf a ->
  (prefix_ok a p <->
   (p <=? 8 * addr_size a) && (be (a_oct a) mod 2 ^ (8 * addr_size a - p) =? 0) = true).
Proof.
  intros Hwf. pose proof (addr_wf_size a Hwf) as Hsz. destruct Hwf as [_ Hoct].
  unfold prefix_ok. rewrite andb_true_iff, N.leb_le, N.eqb_eq. rewrite <- Hsz.
  split.
  - intros [Hp H]. split; [exact Hp|]. apply prefix_bits_mod; assumption.
  - intros [Hp H]. split; [exact Hp|]. apply prefix_bits_mod; assumption.
Qed.

Lemma check_prefix_mod (a : addr) (p : N) : addr_wf a ->
  (check_prefix a p = Ok tt <->
   (p <=? 8 * addr_size a) && (be (a_oct a) mod 2 ^ (8 * addr_size a - p) =? 0) = true).
Proof.
  intros Hwf. rewrite <- (prefix_ok_mod a p Hwf). apply (check_prefix_spec a p Hwf).
Qed.

(* and: the check never panics / runs out of fuel, so not-Ok means Err *)
Lemma check_prefix_not_ok (a : addr) (p : N) : addr_wf a ->
  check_prefix a p <> Ok tt -> exists e, check_prefix a p = Err e.
Proof.
  intros Hwf Hne. destruct (check_prefix_spec a p Hwf) as [_ [Hp Hf]].
  destruct (check_prefix a p) as [u|e|s|].
  - destruct u. exfalso. apply Hne. reflexivity.
  - exists e. reflexivity.
  - exfalso. apply (Hp s). reflexivity.
  - exfalso. apply Hf. reflexivity.
Qed.

Print Assumptions check_prefix_mod.
