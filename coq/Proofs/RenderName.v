(* C04 (renderings) — names: every rendering of a well-formed name (any label case, any backward pointer
   within the hop budget) expands, in the reference semantics Spec.Names.expand, to a case variant of
   the name, and is accepted by the reference parser [pname]. *)
From Coq Require Import ZArith ZifyBool ZifyN ZifyNat.
From DNS Require Import Model.Dec Spec.Names Spec.Wire Spec.Render
  Proofs.ListN Proofs.NameLayer Proofs.NameMain Proofs.DecBase Proofs.DecName Proofs.DecNameComplete
  Proofs.DecNameCyclic Proofs.C13 Proofs.CorrPrim Proofs.RtBase Proofs.RtPrim Proofs.RenderBase.
Local Open Scope N_scope.
Ltac Zify.zify_post_hook ::= Z.div_mod_to_equations.

(* ---- the reference semantics is stable under appending octets ---- *)
Lemma nthN_app_some (b post : bytes) (o l : N) : nthN o b = Some l -> nthN o (b ++ post) = Some l.
Proof.
  unfold nthN. intro H. rewrite nth_opt_app_l; [exact H|]. eapply nth_opt_some_lt. exact H.
Qed.

Lemma takeN_dropN_app (b post : bytes) (k l : N) :
  lenN (takeN l (dropN k b)) = l -> takeN l (dropN k (b ++ post)) = takeN l (dropN k b).
Proof.
  unfold takeN, dropN, lenN. intro H. rewrite skipn_app, firstn_app.
  rewrite firstn_length, skipn_length in H.
  replace (N.to_nat l - length (skipn (N.to_nat k) b))%nat with 0%nat by (rewrite skipn_length; lia).
  cbn [firstn]. apply app_nil_r.
Qed.

Lemma seg_app (post : bytes) : forall (f : nat) (b : bytes) (o : N) r,
  seg f b o = Some r -> seg f (b ++ post) o = Some r.
Proof.
  induction f as [|f IH]; intros b o r H; [cbn [seg] in H; discriminate|].
  rewrite seg_S in H. rewrite seg_S.
  destruct (nthN o b) as [l|] eqn:E; [|discriminate]. rewrite (nthN_app_some _ _ _ _ E).
  destruct (l =? 0); [exact H|].
  destruct (192 <=? l).
  - destruct (nthN (o + 1) b) as [l2|] eqn:E2; [|discriminate]. rewrite (nthN_app_some _ _ _ _ E2). exact H.
  - destruct (l <? 64); [|discriminate]. cbv zeta in *.
    destruct (lenN (takeN l (dropN (o + 1) b)) =? l) eqn:EL; [|discriminate].
    apply N.eqb_eq in EL. rewrite (takeN_dropN_app b post (o + 1) l EL). rewrite EL, N.eqb_refl.
    destruct (seg f b (o + 1 + l)) as [[[ls t] e]|] eqn:Es; [|discriminate].
    rewrite (IH _ _ _ Es). exact H.
Qed.

Lemma expand_app (post : bytes) : forall (h : nat) (b : bytes) (o : N) x,
  expand h b o = Some x -> expand h (b ++ post) o = Some x.
Proof.
  induction h as [|h IH]; intros b o x H; rewrite expand_eq in H; rewrite expand_eq;
    (destruct (seg SEGFUEL b o) as [[[ls t] e]|] eqn:Es; [|discriminate]);
    rewrite (seg_app post _ _ _ _ Es); (destruct t as [t|]; [|exact H]).
  - discriminate.
  - destruct (expand h b t) as [x'|] eqn:Ex; [|discriminate]. rewrite (IH _ _ _ Ex). exact H.
Qed.

(* ---- case variants ---- *)
Lemma ci_name_eqb (n n' : name) : ci_name n n' -> name_eqb n n' = true.
Proof. intro H. apply name_eqb_iff. exact H. Qed.
Lemma ci_label_eqb (l l' : label) : ci_label l l' -> label_eqb l l' = true.
Proof. intro H. apply label_eqb_iff. exact H. Qed.
Lemma ci_label_len (l l' : label) : ci_label l l' -> lenN l' = lenN l.
Proof. intro H. symmetry. apply label_eqb_len, ci_label_eqb, H. Qed.
Lemma ci_label_utf8 (l l' : label) : ci_label l l' -> utf8_valid l' = utf8_valid l.
Proof. intro H. symmetry. apply label_eqb_utf8, ci_label_eqb, H. Qed.
Lemma ci_label_ok (l l' : label) : ci_label l l' -> DecName.label_ok l -> DecName.label_ok l'.
Proof.
  intros H (H1 & H2 & H3). unfold DecName.label_ok. rewrite (ci_label_len l l' H), (ci_label_utf8 l l' H).
  split; [exact H1|]. split; [exact H2|exact H3].
Qed.
Lemma ci_name_length (n n' : name) : ci_name n n' -> length n = length n'.
Proof. induction 1; cbn [length]; congruence. Qed.

(* ---- the literal segment of a rendering ---- *)
Lemma renders_name_seg (pre : bytes) (n : name) (w : bytes) :
  renders_name pre n w -> Forall DecName.label_ok n ->
  bytes_ok w /\
  exists (ls : list label) (t : option N) (tl : name),
    (forall f : nat, (length ls < f)%nat -> seg f (pre ++ w) (lenN pre) = Some (ls, t, lenN pre + lenN w)) /\
    ci_name n (ls ++ tl) /\
    match t with
    | None => tl = []
    | Some q => exists x, expand 15 (pre ++ w) q = Some x /\ x_name x = tl
    end.
Proof.
  intros H. induction H as [pre|pre n q x Hq Hq2 Hx Hh Hci|pre l l' r w Hl Hr IH]; intros Hok.
  - split; [apply bytes_ok_cons; [lia|apply bytes_ok_nil]|].
    exists [], None, []. split; [|split; [constructor|reflexivity]].
    intros [|f] Hf; [cbn [length] in Hf; lia|]. rewrite seg_S, nthN_mid. cbn [N.eqb].
    reflexivity.
  - split; [apply bytes_ok_cons; [lia|apply bytes_ok_cons; [lia|apply bytes_ok_nil]]|].
    exists [], (Some q), (x_name x). split; [|split; [exact Hci|]].
    + intros [|f] Hf; [cbn [length] in Hf; lia|]. rewrite seg_S, nthN_mid.
      destruct (192 + q / 256 =? 0) eqn:E0; [lia|].
      destruct (192 <=? 192 + q / 256) eqn:E1; [|lia].
      replace (lenN pre + 1) with (lenN (pre ++ [192 + q / 256])) by (rewrite lenN_app; reflexivity).
      replace (pre ++ [192 + q / 256; q mod 256]) with ((pre ++ [192 + q / 256]) ++ [q mod 256])
        by (rewrite <- app_assoc; reflexivity).
      rewrite nthN_mid. change (lenN [192 + q / 256; q mod 256]) with 2.
      replace ((192 + q / 256 - 192) * 256 + q mod 256) with q by lia. reflexivity.
    + exists x. split; [apply expand_app; exact Hx|reflexivity].
  - inversion Hok as [|? ? Hl0 Hr0]; subst.
    destruct (IH Hr0) as (Hbw & ls & t & tl & Hseg & Hci & Ht).
    pose proof (ci_label_ok l l' Hl Hl0) as (L1 & L2 & L3).
    assert (EB : pre ++ [lenN l'] ++ l' ++ w = (pre ++ [lenN l'] ++ l') ++ w)
      by (rewrite <- app_assoc; reflexivity).
    split.
    { cbn [app]. apply bytes_ok_cons; [lia|]. apply bytes_ok_app; [apply utf8_bytes_ok; exact L3|exact Hbw]. }
    exists (l' :: ls), t, tl. split; [|split].
    + intros [|f] Hf; [cbn [length] in Hf; lia|]. rewrite seg_S.
      change ([lenN l'] ++ l' ++ w) with (lenN l' :: (l' ++ w)). rewrite nthN_mid.
      destruct (lenN l' =? 0) eqn:E0; [lia|].
      destruct (192 <=? lenN l') eqn:E1; [lia|].
      destruct (lenN l' <? 64) eqn:E2; [|lia]. cbv zeta.
      replace (lenN pre + 1) with (lenN (pre ++ [lenN l'])) by (rewrite lenN_app; reflexivity).
      replace (pre ++ lenN l' :: l' ++ w) with ((pre ++ [lenN l']) ++ l' ++ w)
        by (rewrite <- app_assoc; reflexivity).
      rewrite takeN_dropN_mid, N.eqb_refl.
      replace ((pre ++ [lenN l']) ++ l' ++ w) with ((pre ++ [lenN l'] ++ l') ++ w)
        by (rewrite <- !app_assoc; reflexivity).
      replace (lenN (pre ++ [lenN l']) + lenN l') with (lenN (pre ++ [lenN l'] ++ l'))
        by (rewrite !lenN_app; lia).
      rewrite (Hseg f) by (cbn [length] in Hf; lia).
      f_equal. f_equal. lenN_norm. lia.
    + cbn [app]. constructor; [exact Hl|exact Hci].
    + rewrite EB. exact Ht.
Qed.

(* ---- the expansion of a rendering ---- *)
Lemma renders_name_expand (pre : bytes) (n : name) (w : bytes) :
  renders_name pre n w -> name_wf n = true ->
  bytes_ok w /\
  exists x, expand 16 (pre ++ w) (lenN pre) = Some x /\ ci_name n (x_name x) /\
            x_end x = lenN pre + lenN w.
Proof.
  intros H Hwf. pose proof (name_wf_legal n Hwf) as [Hlab Hlen].
  destruct (renders_name_seg pre n w H Hlab) as (Hbw & ls & t & tl & Hseg & Hci & Ht).
  split; [exact Hbw|].
  assert (length ls < SEGFUEL)%nat as Hf.
  { pose proof (name_ok_fuel n (name_wf_ok n Hwf)) as Hn. pose proof (ci_name_length _ _ Hci) as HL.
    rewrite app_length in HL. lia. }
  specialize (Hseg SEGFUEL Hf). change 16%nat with (S 15). rewrite expand_eq, Hseg.
  destruct t as [q|].
  - destruct Ht as (x & Hx & <-). rewrite Hx. eexists. split; [reflexivity|]. cbn [x_name x_end].
    split; [exact Hci|reflexivity].
  - subst tl. rewrite app_nil_r in Hci. eexists. split; [reflexivity|]. cbn [x_name x_end].
    split; [exact Hci|reflexivity].
Qed.

(* the same inside any longer message: one expansion, whatever follows the rendering *)
Lemma renders_name_expand_post (pre : bytes) (n : name) (w : bytes) :
  renders_name pre n w -> name_wf n = true ->
  exists x, ci_name n (x_name x) /\ x_end x = lenN pre + lenN w /\ (x_hops x <= 16)%nat /\
            forall post, expand 16 (pre ++ w ++ post) (lenN pre) = Some x.
Proof.
  intros H Hwf. destruct (renders_name_expand pre n w H Hwf) as (_ & x & Hx & Hci & Hend).
  exists x. split; [exact Hci|]. split; [exact Hend|]. split; [exact (proj1 (expand_hops 16 _ _ _ Hx))|].
  intro post. rewrite app_assoc. apply expand_app. exact Hx.
Qed.

Lemma renders_name_acc (pre : bytes) (n : name) (w : bytes) :
  renders_name pre n w -> name_wf n = true ->
  bytes_ok w /\ exists n' : name, acc false pname pre w n' /\ name_eqv n' n.
Proof.
  intros H Hwf. destruct (renders_name_expand pre n w H Hwf) as (Hbw & x & Hx & Hci & Hend).
  split; [exact Hbw|]. exists (x_name x).
  pose proof (ci_name_eqb _ _ Hci) as He.
  split; [|apply ListN.name_eqb_sym; exact He].
  intros post e He'. unfold pname. rewrite app_assoc.
  rewrite (expand_mono 16 17 _ _ _ (expand_app post 16 _ _ _ Hx)) by lia.
  assert (name_legalb (x_name x) = true) as ->.
  { apply name_legalb_spec. apply (name_eqb_legal n _ He). apply name_wf_legal, Hwf. }
  rewrite Hend. assert (lenN pre + lenN w <=? e = true) as -> by lia. reflexivity.
Qed.
