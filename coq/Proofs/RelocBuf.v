(* C10, relocation, part 1: the byte-level relation between the buffer of a stand-alone encoder run
   and the buffer of the same run started [d] octets further into a message.

   [bufrel d lo P a b]: [b] is [d] octets longer than [a]; from position [lo] on, octet [i] of [a]
   is octet [i + d] of [b], except at the two octets of the compression pointers that start at the
   positions listed in [P]: there [a] holds the pointer 0xC000 + q and [b] holds 0xC000 + q + d
   (and q + d still fits the 14 bits).

   [bufrelP d P a b]: the same for two buffers of EQUAL length (the in-message buffer with its first
   [d] octets dropped); this is the statement form of Props/C10reloc.v. *)
From DNS Require Import Model.Enc Proofs.Enum Proofs.ListN.
Require Import ZArith ZifyBool ZifyN ZifyNat.
Local Open Scope N_scope.
Ltac Zify.zify_post_hook ::= Z.div_mod_to_equations.

(* ---- N-indexed list access ---- *)
Lemma nthN_app_l {A} (a b : list A) (i : N) : i < lenN a -> nthN i (a ++ b) = nthN i a.
Proof. intros H. unfold nthN. apply nth_opt_app_l. unfold lenN in H. lia. Qed.

Lemma nthN_app_r {A} (a b : list A) (i : N) : lenN a <= i -> nthN i (a ++ b) = nthN (i - lenN a) b.
Proof.
  intros H. unfold nthN. unfold lenN in *. rewrite nth_opt_app_r by lia. f_equal. lia.
Qed.

Lemma nthN_none {A} (a : list A) (i : N) : lenN a <= i -> nthN i a = None.
Proof. intros H. unfold nthN. apply nth_opt_none. unfold lenN in H. lia. Qed.

Lemma nthN_lt_some {A} (a : list A) (i : N) : i < lenN a -> exists v, nthN i a = Some v.
Proof. intros H. unfold nthN. apply nth_opt_lt_some. unfold lenN in H. lia. Qed.

Lemma nthN_dropN {A} (a : list A) (k i : N) : nthN i (dropN k a) = nthN (i + k) a.
Proof. unfold nthN, dropN. rewrite nth_opt_skipn. f_equal. lia. Qed.

Lemma lenN_takeN {A} (a : list A) (k : N) : k <= lenN a -> lenN (takeN k a) = k.
Proof. intros H. unfold lenN, takeN in *. rewrite firstn_length. lia. Qed.

Lemma lenN_dropN {A} (a : list A) (k : N) : lenN (dropN k a) = lenN a - k.
Proof. unfold lenN, dropN. rewrite skipn_length. lia. Qed.

Lemma lenN_patch (i : N) (x buf : bytes) : i + lenN x <= lenN buf -> lenN (patch i x buf) = lenN buf.
Proof.
  intros H. unfold patch. rewrite !lenN_app, lenN_takeN by lia. rewrite lenN_dropN. lia.
Qed.

Lemma nthN_patch_out (i j : N) (x buf : bytes) : i + lenN x <= lenN buf ->
  j < i \/ i + lenN x <= j -> nthN j (patch i x buf) = nthN j buf.
Proof.
  intros H Hj. unfold patch. destruct Hj as [Hj|Hj].
  - rewrite nthN_app_l by (rewrite lenN_takeN; lia).
    unfold nthN, takeN. apply nth_opt_firstn. lia.
  - rewrite nthN_app_r by (rewrite lenN_takeN; lia). rewrite lenN_takeN by lia.
    rewrite nthN_app_r by lia. rewrite nthN_dropN. f_equal. lia.
Qed.

Lemma nthN_patch_in (i j : N) (x buf : bytes) : i + lenN x <= lenN buf ->
  i <= j -> j < i + lenN x -> nthN j (patch i x buf) = nthN (j - i) x.
Proof.
  intros H H1 H2. unfold patch.
  rewrite nthN_app_r by (rewrite lenN_takeN; lia). rewrite lenN_takeN by lia.
  apply nthN_app_l. lia.
Qed.

Lemma nthN_two_end {A} (a : list A) (x y : A) :
  nthN (lenN a) (a ++ [x; y]) = Some x /\ nthN (lenN a + 1) (a ++ [x; y]) = Some y.
Proof.
  split.
  - apply nthN_mid.
  - rewrite nthN_app_r by lia. replace (lenN a + 1 - lenN a) with 1 by lia. reflexivity.
Qed.

(* ---- the two octets of a compression pointer ---- *)
Definition phi (q : N) : N := ((49152 + q) / 256) mod 256.
Definition plo (q : N) : N := (49152 + q) mod 256.

Lemma u16b_ptr (q : N) : u16b (49152 + q) = [phi q; plo q].
Proof. reflexivity. Qed.

Lemma phi_ge (q : N) : q <= 16383 -> 192 <= phi q.
Proof. intros H. unfold phi. lia. Qed.

Lemma phi_plo_val (q : N) : q <= 16383 -> (phi q - 192) * 256 + plo q = q /\ phi q < 256 /\ plo q < 256.
Proof. intros H. unfold phi, plo. lia. Qed.

Definition lor_add_ok (i : N) : bool := N.lor 49152 i =? 49152 + i.
Lemma lor_add_all : forallb lor_add_ok (nrange 16384) = true.
Proof. vm_compute. reflexivity. Qed.
Lemma lor_ptr (q : N) : q <= 16383 -> N.lor ENC_COMPRESSION_BITS q = 49152 + q.
Proof.
  intros H. rewrite ENC_COMPRESSION_BITS_val.
  assert (In q (nrange 16384)) as Hin by (apply nrange_in; lia).
  pose proof (proj1 (forallb_forall _ _) lor_add_all q Hin) as E.
  unfold lor_add_ok in E. apply N.eqb_eq in E. exact E.
Qed.

(* ---- the relation ---- *)
(* position [i] is not one of the two octets of a pointer listed in [P] *)
Definition free (P : list N) (i : N) : Prop := forall j, In j P -> i <> j /\ i <> j + 1.

Definition ptr_pair (d off : N) (a b : bytes) (i : N) : Prop :=
  exists q, q + d <= 16383 /\
    nthN i a = Some (phi q) /\ nthN (i + 1) a = Some (plo q) /\
    nthN (i + off) b = Some (phi (q + d)) /\ nthN (i + off + 1) b = Some (plo (q + d)).

Definition bufrel (d lo : N) (P : list N) (a b : bytes) : Prop :=
  lenN b = lenN a + d /\
  (forall i, lo <= i -> free P i -> nthN i a = nthN (i + d) b) /\
  (forall i, In i P -> ptr_pair d d a b i).

Definition bufrelP (d : N) (P : list N) (a b : bytes) : Prop :=
  lenN a = lenN b /\
  (forall i, free P i -> nthN i a = nthN i b) /\
  (forall i, In i P -> ptr_pair d 0 a b i).

Lemma free_nil (i : N) : free [] i.
Proof. intros j []. Qed.

Lemma free_app (P Q : list N) (i : N) : free (P ++ Q) i <-> free P i /\ free Q i.
Proof.
  unfold free. split.
  - intros H. split; intros j Hj; apply H; apply in_or_app; [left|right]; exact Hj.
  - intros [H1 H2] j Hj. apply in_app_or in Hj. destruct Hj as [Hj|Hj]; [apply H1|apply H2]; exact Hj.
Qed.

Lemma free_cons (p : N) (P : list N) (i : N) : free (p :: P) i <-> (i <> p /\ i <> p + 1) /\ free P i.
Proof.
  unfold free. split.
  - intros H. split; [apply H; left; reflexivity|]. intros j Hj. apply H. right. exact Hj.
  - intros [H1 H2] j [Hj|Hj]; [subst j; exact H1|apply H2; exact Hj].
Qed.

Lemma ptr_pair_inside (d off : N) (a b : bytes) (i : N) : ptr_pair d off a b i -> i + 2 <= lenN a.
Proof. intros (q & _ & _ & H & _). apply nthN_some_lt in H. lia. Qed.

Lemma bufrel_init (d lo : N) (a b : bytes) : lenN b = lenN a + d ->
  (forall i, lo <= i -> nthN i a = nthN (i + d) b) -> bufrel d lo [] a b.
Proof.
  intros H1 H2. split; [exact H1|]. split; [intros i Hi _; apply H2; exact Hi|intros i []].
Qed.

(* both runs append the same octets *)
Lemma bufrel_app (d lo : N) (P : list N) (a b x : bytes) :
  bufrel d lo P a b -> bufrel d lo P (a ++ x) (b ++ x).
Proof.
  intros (HL & HF & HP). split; [rewrite !lenN_app; lia|]. split.
  - intros i Hlo Hi. destruct (N.ltb_spec i (lenN a)) as [Hlt|Hge].
    + rewrite !nthN_app_l by lia. apply HF; assumption.
    + rewrite !nthN_app_r by lia. f_equal. lia.
  - intros i Hi. pose proof (ptr_pair_inside _ _ _ _ _ (HP i Hi)) as Hin.
    destruct (HP i Hi) as (q & Hq & H1 & H2 & H3 & H4). exists q. split; [exact Hq|].
    rewrite !nthN_app_l by lia. split; [exact H1|]. split; [exact H2|]. split; [exact H3|exact H4].
Qed.

(* both runs append a pointer: to q in the stand-alone run, to q + d in the message *)
Lemma bufrel_ptr (d lo : N) (P : list N) (a b : bytes) (q : N) :
  bufrel d lo P a b -> q + d <= 16383 ->
  bufrel d lo (lenN a :: P) (a ++ u16b (49152 + q)) (b ++ u16b (49152 + (q + d))).
Proof.
  intros (HL & HF & HP) Hq. rewrite !u16b_ptr.
  split; [rewrite !lenN_app; unfold lenN at 2 4; cbn [length]; lia|]. split.
  - intros i Hlo Hi. apply free_cons in Hi. destruct Hi as [[Hi1 Hi2] Hi].
    destruct (N.ltb_spec i (lenN a)) as [Hlt|Hge].
    + rewrite !nthN_app_l by lia. apply HF; assumption.
    + rewrite !nthN_none; [reflexivity|..]; rewrite lenN_app; unfold lenN at 2; cbn [length]; lia.
  - intros i [Hi|Hi].
    + subst i. exists q. split; [exact Hq|].
      destruct (nthN_two_end a (phi q) (plo q)) as [E1 E2].
      destruct (nthN_two_end b (phi (q + d)) (plo (q + d))) as [E3 E4].
      split; [exact E1|]. split; [exact E2|]. rewrite <- HL. split; [exact E3|exact E4].
    + pose proof (ptr_pair_inside _ _ _ _ _ (HP i Hi)) as Hin.
      destruct (HP i Hi) as (q' & Hq' & H1 & H2 & H3 & H4). exists q'. split; [exact Hq'|].
      rewrite !nthN_app_l by lia. split; [exact H1|]. split; [exact H2|]. split; [exact H3|exact H4].
Qed.

(* both runs overwrite the same octets at corresponding positions that hold no pointer *)
Lemma bufrel_patch (d lo : N) (P : list N) (a b x : bytes) (i : N) :
  bufrel d lo P a b -> i + lenN x <= lenN a ->
  (forall j, i <= j -> j < i + lenN x -> free P j) ->
  bufrel d lo P (patch i x a) (patch (i + d) x b).
Proof.
  intros (HL & HF & HP) Hi Hfree.
  assert (Hib : i + d + lenN x <= lenN b) by lia.
  split; [rewrite !lenN_patch by assumption; exact HL|]. split.
  - intros j Hlo Hj.
    destruct (N.ltb_spec j i) as [H1|H1].
    + rewrite !nthN_patch_out by (try assumption; lia). apply HF; assumption.
    + destruct (N.ltb_spec j (i + lenN x)) as [H2|H2].
      * rewrite !nthN_patch_in by (try assumption; lia). f_equal. lia.
      * rewrite !nthN_patch_out by (try assumption; lia). apply HF; assumption.
  - intros j Hj. pose proof (ptr_pair_inside _ _ _ _ _ (HP j Hj)) as Hin.
    assert (Hout0 : j < i \/ i + lenN x <= j).
    { destruct (N.ltb_spec j i) as [H1|H1]; [left; exact H1|right].
      destruct (N.ltb_spec j (i + lenN x)) as [H2|H2]; [|exact H2]. exfalso.
      destruct (Hfree j H1 H2 j Hj) as [K _]. apply K. reflexivity. }
    assert (Hout1 : j + 1 < i \/ i + lenN x <= j + 1).
    { destruct (N.ltb_spec (j + 1) i) as [H1|H1]; [left; exact H1|right].
      destruct (N.ltb_spec (j + 1) (i + lenN x)) as [H2|H2]; [|exact H2]. exfalso.
      destruct (Hfree (j + 1) H1 H2 j Hj) as [_ K]. apply K. reflexivity. }
    destruct (HP j Hj) as (q & Hq & H1 & H2 & H3 & H4). exists q. split; [exact Hq|].
    rewrite (nthN_patch_out i j) by assumption.
    rewrite (nthN_patch_out i (j + 1)) by assumption.
    rewrite (nthN_patch_out (i + d) (j + d)) by (try assumption; lia).
    rewrite (nthN_patch_out (i + d) (j + d + 1)) by (try assumption; lia).
    split; [exact H1|]. split; [exact H2|]. split; [exact H3|exact H4].
Qed.

(* the pointer list may be presented in any grouping *)
Lemma bufrel_perm (d lo : N) (P Q : list N) (a b : bytes) :
  (forall i, In i P <-> In i Q) -> bufrel d lo P a b -> bufrel d lo Q a b.
Proof.
  intros HPQ (HL & HF & HP). split; [exact HL|]. split.
  - intros i Hlo Hi. apply HF; [exact Hlo|]. intros j Hj. apply Hi. apply HPQ. exact Hj.
  - intros i Hi. apply HP. apply HPQ. exact Hi.
Qed.

(* the statement form: drop the first d octets of the longer buffer *)
Lemma bufrel_bufrelP (d : N) (P : list N) (a b : bytes) :
  bufrel d 0 P a b -> bufrelP d P a (dropN d b).
Proof.
  intros (HL & HF & HP). split; [rewrite lenN_dropN; lia|]. split.
  - intros i Hi. rewrite nthN_dropN. apply HF; [lia|exact Hi].
  - intros i Hi. destruct (HP i Hi) as (q & Hq & H1 & H2 & H3 & H4). exists q. split; [exact Hq|].
    split; [exact H1|]. split; [exact H2|]. rewrite !nthN_dropN.
    replace (i + 0 + d) with (i + d) by lia. replace (i + 0 + 1 + d) with (i + d + 1) by lia.
    split; [exact H3|exact H4].
Qed.

(* with no pointer the two buffers are equal *)
Lemma bufrelP_nil (d : N) (a b : bytes) : bufrelP d [] a b -> a = b.
Proof.
  intros (HL & HF & _). apply nth_opt_ext; [unfold lenN in HL; lia|].
  intros i Hi. specialize (HF (N.of_nat i) (free_nil _)). unfold nthN in HF. rewrite Nat2N.id in HF. exact HF.
Qed.

(* every listed position holds a pointer octet (>= 0xC0) in both buffers *)
Lemma bufrelP_ptr_octet (d : N) (P : list N) (a b : bytes) (i : N) : bufrelP d P a b -> In i P ->
  exists h h', nthN i a = Some h /\ nthN i b = Some h' /\ 192 <= h /\ 192 <= h'.
Proof.
  intros (_ & _ & HP) Hi. destruct (HP i Hi) as (q & Hq & H1 & _ & H3 & _).
  exists (phi q), (phi (q + d)). split; [exact H1|]. rewrite N.add_0_r in H3. split; [exact H3|].
  split; apply phi_ge; lia.
Qed.

(* the pointer fields as two-octet slices *)
Lemma slice2 (a : bytes) (i x y : N) : nthN i a = Some x -> nthN (i + 1) a = Some y ->
  takeN 2 (dropN i a) = [x; y].
Proof.
  intros H1 H2. rewrite <- (N.add_0_l i) in H1. rewrite <- nthN_dropN in H1.
  replace (i + 1) with (1 + i) in H2 by lia. rewrite <- nthN_dropN in H2.
  destruct (dropN i a) as [|x' [|y' r]]; try discriminate.
  unfold nthN in H1, H2. cbn in H1, H2. inversion H1; inversion H2; subst. reflexivity.
Qed.

Lemma bufrelP_slices (d : N) (P : list N) (a b : bytes) (i : N) : bufrelP d P a b -> In i P ->
  exists q, q + d <= 16383 /\
    takeN 2 (dropN i a) = u16b (49152 + q) /\ takeN 2 (dropN i b) = u16b (49152 + (q + d)).
Proof.
  intros (_ & _ & HP) Hi. destruct (HP i Hi) as (q & Hq & H1 & H2 & H3 & H4). exists q.
  split; [exact Hq|]. rewrite !u16b_ptr. rewrite N.add_0_r in H3, H4.
  split; apply slice2; assumption.
Qed.

(* ---- a boolean checker for concrete buffers ---- *)
Definition opt_eqb (x y : option N) : bool :=
  match x, y with Some u, Some v => u =? v | None, None => true | _, _ => false end.
Definition freeb (P : list N) (i : N) : bool :=
  forallb (fun j => negb (i =? j) && negb (i =? j + 1)) P.
Definition ptr_pairb (d : N) (a b : bytes) (i : N) : bool :=
  match nthN i a, nthN (i + 1) a, nthN i b, nthN (i + 1) b with
  | Some h, Some l, Some h', Some l' =>
    let q := (h - 192) * 256 + l in
    (192 <=? h) && (q + d <=? 16383) && (h =? phi q) && (l =? plo q) && (h' =? phi (q + d)) && (l' =? plo (q + d))
  | _, _, _, _ => false
  end.
Definition bufrelPb (d : N) (P : list N) (a b : bytes) : bool :=
  (lenN a =? lenN b) &&
  forallb (fun i => if freeb P i then opt_eqb (nthN i a) (nthN i b) else true) (nrange (lenN a)) &&
  forallb (ptr_pairb d a b) P.

Lemma opt_eqb_eq (x y : option N) : opt_eqb x y = true -> x = y.
Proof.
  destruct x, y; cbn [opt_eqb]; try discriminate; [|reflexivity]. intros H. apply N.eqb_eq in H. congruence.
Qed.

Lemma freeb_complete (P : list N) (i : N) : free P i -> freeb P i = true.
Proof.
  intros H. unfold freeb. apply forallb_forall. intros j Hj. destruct (H j Hj) as [H1 H2].
  apply andb_true_iff. split; apply negb_true_iff; apply N.eqb_neq; assumption.
Qed.

Theorem bufrelPb_sound (d : N) (P : list N) (a b : bytes) : bufrelPb d P a b = true -> bufrelP d P a b.
Proof.
  unfold bufrelPb. intros H. apply andb_true_iff in H. destruct H as [H H3].
  apply andb_true_iff in H. destruct H as [H1 H2]. apply N.eqb_eq in H1.
  split; [exact H1|]. split.
  - intros i Hi. destruct (N.ltb_spec i (lenN a)) as [Hlt|Hge].
    + pose proof (proj1 (forallb_forall _ _) H2 i (nrange_in _ _ Hlt)) as K. cbv beta in K.
      rewrite (freeb_complete P i Hi) in K. apply opt_eqb_eq. exact K.
    + rewrite !nthN_none by lia. reflexivity.
  - intros i Hi. pose proof (proj1 (forallb_forall _ _) H3 i Hi) as K. unfold ptr_pairb in K.
    destruct (nthN i a) as [h|] eqn:E1; [|discriminate]. destruct (nthN (i + 1) a) as [l|] eqn:E2; [|discriminate].
    destruct (nthN i b) as [h'|] eqn:E3; [|discriminate]. destruct (nthN (i + 1) b) as [l'|] eqn:E4; [|discriminate].
    cbv zeta in K.
    apply andb_true_iff in K. destruct K as [K K6]. apply andb_true_iff in K. destruct K as [K K5].
    apply andb_true_iff in K. destruct K as [K K4]. apply andb_true_iff in K. destruct K as [K K3].
    apply andb_true_iff in K. destruct K as [K1 K2].
    apply N.leb_le in K2. apply N.eqb_eq in K3, K4, K5, K6.
    exists ((h - 192) * 256 + l). split; [exact K2|].
    split; [rewrite E1; f_equal; exact K3|]. split; [rewrite E2; f_equal; exact K4|]. rewrite N.add_0_r.
    split; [rewrite E3; f_equal; exact K5|rewrite E4; f_equal; exact K6].
Qed.

(* the relation restricted to what was appended after two prefixes of lengths lo and lo + d *)
Lemma bufrel_suffix (d lo : N) (P : list N) (a b w1 w2 : bytes) :
  bufrel d lo P (a ++ w1) (b ++ w2) -> lenN a = lo -> lenN b = lo + d ->
  (forall i, In i P -> lo <= i) -> bufrelP d (map (fun i => i - lo) P) w1 w2.
Proof.
  intros (HL & HF & HP) Ha Hb Hlo. rewrite !lenN_app in HL.
  assert (Hfree : forall i, free (map (fun i => i - lo) P) i -> free P (i + lo)).
  { intros i Hi j Hj. specialize (Hlo j Hj).
    destruct (Hi (j - lo)) as [K1 K2]; [apply in_map_iff; exists j; split; [reflexivity|exact Hj]|]. lia. }
  split; [lia|]. split.
  - intros i Hi. specialize (HF (i + lo)). rewrite !nthN_app_r in HF by lia.
    replace (i + lo - lenN a) with i in HF by lia. replace (i + lo + d - lenN b) with i in HF by lia.
    apply HF; [lia|apply Hfree; exact Hi].
  - intros i Hi. apply in_map_iff in Hi. destruct Hi as (j & <- & Hj). specialize (Hlo j Hj).
    destruct (HP j Hj) as (q & Hq & H1 & H2 & H3 & H4). exists q. split; [exact Hq|].
    rewrite !nthN_app_r in H1, H2, H3, H4 by lia.
    replace (j + 1 - lenN a) with (j - lo + 1) in H2 by lia.
    replace (j - lenN a) with (j - lo) in H1 by lia.
    replace (j + d - lenN b) with (j - lo + 0) in H3 by lia.
    replace (j + d + 1 - lenN b) with (j - lo + 0 + 1) in H4 by lia.
    split; [exact H1|]. split; [exact H2|]. split; [exact H3|exact H4].
Qed.
