(* C01 — a compositional safety predicate on decoder computations.
   [okat k Q m s]: running [m] on [s] ends in a value or an error value (never a panic site, never
   fuel exhaustion); on a value the final state is well formed, the window length is unchanged, the
   cursor advanced by at least [k] octets and the value satisfies [Q].  [safeP k Q m]: on every
   well-formed state. *)
From Coq Require Import ZifyBool ZifyN ZifyNat.
From DNS Require Import Model.Dec Proofs.DecBase Proofs.DecName Proofs.DecNameSpec.
Local Open Scope N_scope.

Definition okat {A} (k : N) (Q : A -> Prop) (m : DM A) (s : dst) : Prop :=
  match m s with
  | DOk a s' => dst_wf s' /\ d_len s' = d_len s /\ d_off s + k <= d_off s' /\ Q a
  | DErr _ _ => True
  | DPanic _ => False
  | DFuel => False
  end.
Definition safeP {A} (k : N) (Q : A -> Prop) (m : DM A) : Prop := forall s, dst_wf s -> okat k Q m s.
Definition anyv {A} : A -> Prop := fun _ => True.
Definition safe0 {A} (m : DM A) : Prop := safeP 0 anyv m.

Definition total {A} (r : dres A) : Prop := (exists a s, r = DOk a s) \/ (exists e c, r = DErr e c).

Lemma okat_total {A} k Q (m : DM A) s : okat k Q m s -> total (m s).
Proof.
  unfold okat, total. destruct (m s) as [a s'|e c|x|]; intro H.
  - left. eauto.
  - right. eauto.
  - contradiction.
  - contradiction.
Qed.

Lemma okat_weaken {A} k k' (Q Q' : A -> Prop) (m : DM A) s :
  okat k Q m s -> k' <= k -> (forall a, Q a -> Q' a) -> okat k' Q' m s.
Proof.
  unfold okat. destruct (m s) as [a s'|e c|x|]; intros H Hk HQ; try exact H.
  destruct H as (H1 & H2 & H3 & H4). split; [exact H1|]. split; [exact H2|]. split; [lia|auto].
Qed.
Lemma safeP_weaken {A} k k' (Q Q' : A -> Prop) (m : DM A) :
  safeP k Q m -> k' <= k -> (forall a, Q a -> Q' a) -> safeP k' Q' m.
Proof. intros H Hk HQ s W. eapply okat_weaken; [apply H; exact W|exact Hk|exact HQ]. Qed.
Lemma safeP_safe0 {A} k (Q : A -> Prop) (m : DM A) : safeP k Q m -> safe0 m.
Proof. intro H. eapply safeP_weaken; [exact H|lia|]. intros; exact I. Qed.
Lemma safeP_any {A} k (Q : A -> Prop) (m : DM A) : safeP k Q m -> safeP k anyv m.
Proof. intro H. eapply safeP_weaken; [exact H|lia|]. intros; exact I. Qed.

(* ---- monad ---- *)
Lemma okat_bind {A B} j k (Q : A -> Prop) (R : B -> Prop) (m : DM A) (f : A -> DM B) s :
  okat j Q m s ->
  (forall a s', Q a -> dst_wf s' -> d_len s' = d_len s -> d_off s + j <= d_off s' -> okat k R (f a) s') ->
  okat (j + k) R (bind m f) s.
Proof.
  unfold okat at 1 3, bind. destruct (m s) as [a s'|e c|x|]; intros H Hf; try exact H.
  destruct H as (H1 & H2 & H3 & H4). specialize (Hf a s' H4 H1 H2 H3). unfold okat in Hf.
  destruct (f a s') as [b s''|e c|x|]; try exact Hf.
  destruct Hf as (F1 & F2 & F3 & F4). split; [exact F1|]. split; [congruence|]. split; [lia|exact F4].
Qed.

Lemma safeP_bind {A B} j k (Q : A -> Prop) (R : B -> Prop) (m : DM A) (f : A -> DM B) :
  safeP j Q m -> (forall a, Q a -> safeP k R (f a)) -> safeP (j + k) R (bind m f).
Proof.
  intros Hm Hf s W. eapply okat_bind; [apply Hm; exact W|].
  intros a s' Ha W' _ _. apply Hf; assumption.
Qed.
(* progress comes from the first action *)
Lemma safeP_bind1 {A B} j (Q : A -> Prop) (R : B -> Prop) (m : DM A) (f : A -> DM B) :
  safeP j Q m -> (forall a, Q a -> safeP 0 R (f a)) -> safeP j R (bind m f).
Proof.
  intros Hm Hf. replace j with (j + 0) by lia. apply safeP_bind with (Q := Q); [|exact Hf].
  replace (j + 0) with j by lia. exact Hm.
Qed.
(* progress comes from the continuation *)
Lemma safeP_bind2 {A B} k (Q : A -> Prop) (R : B -> Prop) (m : DM A) (f : A -> DM B) :
  safeP 0 Q m -> (forall a, Q a -> safeP k R (f a)) -> safeP k R (bind m f).
Proof.
  intros Hm Hf. replace k with (0 + k) by lia. apply safeP_bind with (Q := Q); assumption.
Qed.
Lemma safe0_bind {A B} (m : DM A) (f : A -> DM B) :
  safe0 m -> (forall a, safe0 (f a)) -> safe0 (bind m f).
Proof. intros Hm Hf. apply safeP_bind1 with (Q := anyv); [exact Hm|]. intros a _. apply Hf. Qed.

Lemma safeP_ret {A} (Q : A -> Prop) (a : A) : Q a -> safeP 0 Q (ret a).
Proof.
  intros Ha s W. unfold okat, ret. split; [exact W|]. split; [reflexivity|]. split; [lia|exact Ha].
Qed.
Lemma safe0_ret {A} (a : A) : safe0 (ret a).
Proof. apply safeP_ret. exact I. Qed.
Lemma safeP_fail {A} k (Q : A -> Prop) e : safeP k Q (@fail A e).
Proof. intros s W. exact I. Qed.
Lemma safeP_lift {A} (Q : A -> Prop) (r : res A) :
  (forall x, r <> Panic x) -> r <> OutOfFuel -> (forall a, r = Ok a -> Q a) -> safeP 0 Q (lift r).
Proof.
  intros Hp Hf Hq. destruct r as [a|e|x|]; cbn [lift].
  - apply safeP_ret. apply Hq. reflexivity.
  - apply safeP_fail.
  - exfalso. exact (Hp x eq_refl).
  - exfalso. exact (Hf eq_refl).
Qed.
Lemma safeP_if {A} k (Q : A -> Prop) (b : bool) (m1 m2 : DM A) :
  (b = true -> safeP k Q m1) -> (b = false -> safeP k Q m2) -> safeP k Q (if b then m1 else m2).
Proof. destruct b; intros H1 H2; [apply H1|apply H2]; reflexivity. Qed.

(* ---- Decoder::read, is_finished, finished, bytes ---- *)
Lemma safeP_read n : n < WFMAX -> safeP n (fun b : bytes => bytes_ok b /\ lenN b = n) (read n).
Proof.
  intros Hn s W. pose proof W as (H1 & H2 & H3 & H4). unfold okat, read. cbv zeta.
  destruct (POW64 <=? d_off s + n) eqn:E.
  { unfold POW64, WFMAX in *. lia. }
  rewrite OP_read_val. cbn [cmp_apply]. destruct (d_off s + n <=? d_len s) eqn:E1; [|exact I].
  split; [apply (adv_wf n s W); lia|]. cbn [d_len d_off].
  split; [reflexivity|]. split; [lia|]. split; [apply bytes_ok_takeN; exact H4|].
  rewrite lenN_takeN. lia.
Qed.

Lemma is_finished_cases s :
  (d_off s < d_len s /\ is_finished s = DOk false s) \/
  (d_off s = d_len s /\ is_finished s = DOk true s) \/
  (exists e c, is_finished s = DErr e c).
Proof.
  unfold is_finished. destruct (d_off s <? d_len s) eqn:E1.
  - left. split; [lia|reflexivity].
  - destruct (d_off s =? d_len s) eqn:E2.
    + right. left. split; [lia|reflexivity].
    + right. right. eauto.
Qed.
Lemma safe0_is_finished : safe0 is_finished.
Proof.
  intros s W. unfold okat.
  destruct (is_finished_cases s) as [(_ & ->)|[(_ & ->)|(e & c & ->)]]; try exact I;
    (split; [exact W|]; split; [reflexivity|]; split; [lia|exact I]).
Qed.
Lemma safe0_finished : safe0 finished.
Proof.
  unfold finished. apply safe0_bind; [apply safe0_is_finished|]. intros [|]; [apply safe0_ret|].
  intros s W. exact I.
Qed.

Lemma OP_bytes_val : OP_bytes = CLe. Proof. reflexivity. Qed.
Lemma vec_cases s : dst_wf s ->
  (d_off s <= d_len s /\
   vec s = DOk (d_rest s) {| d_rest := []; d_off := d_len s; d_len := d_len s;
                             d_cost := d_cost s + (d_len s - d_off s) |} /\
   dst_wf {| d_rest := []; d_off := d_len s; d_len := d_len s; d_cost := d_cost s + (d_len s - d_off s) |}) \/
  (exists e c, vec s = DErr e c).
Proof.
  intros (H1 & H2 & H3 & H4). unfold vec. rewrite OP_bytes_val. cbn [cmp_apply].
  destruct (d_off s <=? d_len s) eqn:E; [left|right; eauto].
  split; [lia|]. split; [reflexivity|]. unfold dst_wf. cbn [d_rest d_off d_len].
  split; [rewrite lenN_nil; lia|]. split; [exact H2|]. split; [exact H2|constructor].
Qed.
Lemma safeP_vec : safeP 0 bytes_ok vec.
Proof.
  intros s W. unfold okat. destruct (vec_cases s W) as [(Ho & -> & W')|(e & c & ->)]; [|exact I].
  split; [exact W'|]. cbn [d_len d_off]. split; [reflexivity|]. split; [lia|].
  destruct W as (_ & _ & _ & H4). exact H4.
Qed.

(* ---- helpers.rs ---- *)
Lemma safeP_u8 : safeP 1 (fun b => b < 256) u8.
Proof.
  intros s W. unfold okat.
  destruct (u8_wf s W) as [(Ho & b & Hn & Hb & ->)|(Ho & ->)]; [|exact I].
  split; [apply adv_wf; [exact W|lia]|]. cbn [adv d_len d_off].
  split; [reflexivity|]. split; [lia|exact Hb].
Qed.

Lemma safeP_uint k : k < WFMAX -> safeP k anyv (uint k).
Proof.
  intro Hk. unfold uint. apply safeP_bind1 with (Q := fun b : bytes => bytes_ok b /\ lenN b = k).
  - apply safeP_read. exact Hk.
  - intros b (_ & Hl). apply N.eqb_eq in Hl. rewrite Hl. apply safe0_ret.
Qed.

Lemma be_2 (x y : N) : be [x; y] = x * 256 + y.
Proof. unfold be. cbn [be_join]. lia. Qed.
Lemma safeP_u16 : safeP 2 (fun v => v < 65536) u16.
Proof.
  unfold u16, uint. apply safeP_bind1 with (Q := fun b : bytes => bytes_ok b /\ lenN b = 2).
  - apply safeP_read. unfold WFMAX. lia.
  - intros b (Hb & Hl). pose proof Hl as Hl'. apply N.eqb_eq in Hl'. rewrite Hl'.
    apply safeP_ret.
    destruct b as [|x [|y [|z r]]]; unfold lenN in Hl; cbn [length] in Hl; try lia.
    rewrite be_2. unfold bytes_ok in Hb. inversion Hb as [|? ? Hx Hr]; subst.
    inversion Hr as [|? ? Hy _]; subst. unfold is_byte in *. lia.
Qed.
Lemma safeP_u32 : safeP 4 anyv u32.
Proof. apply safeP_uint. unfold WFMAX. lia. Qed.
Lemma safeP_u64 : safeP 8 anyv u64.
Proof. apply safeP_uint. unfold WFMAX. lia. Qed.
Lemma safeP_ipv4 : safeP 4 anyv ipv4_addr.
Proof. exact safeP_u32. Qed.

Lemma safeP_string : safeP 1 bytes_ok string_.
Proof.
  unfold string_. apply safeP_bind1 with (Q := fun b => b < 256); [exact safeP_u8|].
  intros n Hn. apply safeP_bind1 with (Q := fun b : bytes => bytes_ok b /\ lenN b = n).
  - eapply safeP_weaken; [apply safeP_read; unfold WFMAX; lia|lia|auto].
  - intros b (Hb & _). destruct (utf8_valid b); [apply safeP_ret; exact Hb|apply safeP_fail].
Qed.

Lemma safeP_ipv6 : safeP 16 anyv ipv6_addr.
Proof.
  unfold ipv6_addr.
  pose proof (safeP_any _ _ _ safeP_u16) as U.
  change 16 with (2 + (2 + (2 + (2 + (2 + (2 + (2 + (2 + 0)))))))).
  apply safeP_bind with (Q := anyv); [exact U|intros a _].
  apply safeP_bind with (Q := anyv); [exact U|intros b _].
  apply safeP_bind with (Q := anyv); [exact U|intros c _].
  apply safeP_bind with (Q := anyv); [exact U|intros d _].
  apply safeP_bind with (Q := anyv); [exact U|intros e _].
  apply safeP_bind with (Q := anyv); [exact U|intros f _].
  apply safeP_bind with (Q := anyv); [exact U|intros g _].
  apply safeP_bind with (Q := anyv); [exact U|intros h _].
  apply safe0_ret.
Qed.

Lemma safeP_code k (Q : N -> Prop) t er rd : safeP k Q rd -> safeP k Q (code t er rd).
Proof.
  intro H. unfold code. apply safeP_bind1 with (Q := Q); [exact H|].
  intros v Hv. destruct (in_table t v); [apply safeP_ret; exact Hv|apply safeP_fail].
Qed.

(* ---- the name reader (Proofs/DecNameSpec.v) ---- *)
Lemma safeP_domain_name main : bytes_ok main -> lenN main < WFMAX -> safeP 1 anyv (domain_name main).
Proof.
  intros Hb Hm s W. unfold okat.
  destruct (name_total main s Hb Hm W) as [(n & s' & E)|(e & c & E)]; rewrite E; [|exact I].
  destruct (name_bounds main s n s' Hb Hm W E) as (B1 & B2 & B3 & _).
  split; [exact B1|]. split; [exact B2|]. split; [exact B3|exact I].
Qed.

(* ---- sub-decoders: the child window is a fresh well-formed state ---- *)
Lemma okat_with_sub {A} (Q : A -> Prop) n (m : DM A) s :
  n < WFMAX -> safeP 0 Q m -> dst_wf s -> okat n Q (with_sub n m) s.
Proof.
  intros Hn Hm W. pose proof (safeP_read n Hn s W) as R. unfold okat in R. unfold okat, with_sub.
  destruct (read n s) as [b s'|e c|x|]; try exact R.
  destruct R as (R1 & R2 & R3 & R4 & R5).
  set (cs := {| d_rest := b; d_off := 0; d_len := lenN b; d_cost := d_cost s' |}).
  assert (Wc : dst_wf cs).
  { unfold dst_wf, cs. cbn [d_rest d_off d_len]. split; [lia|].
    destruct W as (_ & W2 & W3 & _). split; [lia|]. split; [unfold WFMAX; lia|exact R4]. }
  assert (S : safeP 0 Q (a <- m ;; _ <- finished ;; ret a)).
  { apply safeP_bind1 with (Q := Q); [exact Hm|]. intros a Ha.
    apply safeP_bind1 with (Q := anyv); [exact safe0_finished|]. intros _ _. apply safeP_ret. exact Ha. }
  specialize (S cs Wc). unfold okat in S.
  destruct ((a <- m ;; _ <- finished ;; ret a) cs) as [a c|e c|x|]; try exact S.
  destruct S as (_ & _ & _ & S4). cbn [d_len d_off].
  split; [|split; [exact R2|split; [exact R3|exact S4]]].
  destruct R1 as (A1 & A2 & A3 & A4). unfold dst_wf. cbn [d_rest d_off d_len].
  split; [exact A1|]. split; [exact A2|]. split; [exact A3|exact A4].
Qed.
Lemma safeP_with_sub {A} (Q : A -> Prop) n (m : DM A) :
  n < WFMAX -> safeP 0 Q m -> safeP n Q (with_sub n m).
Proof. intros Hn Hm s W. apply okat_with_sub; assumption. Qed.

(* ---- `while !self.is_finished()?` loops: every iteration consumes at least one octet ---- *)
Lemma many_S {A} f (item : DM A) acc : many (S f) item acc =
  (fin <- is_finished ;; if fin then ret (rev acc) else x <- item ;; many f item (x :: acc)).
Proof. reflexivity. Qed.
Lemma strings_loop_S f acc : strings_loop (S f) acc =
  (fin <- is_finished ;; if fin then ret (rev acc) else s <- string_ ;; strings_loop f (s :: acc)).
Proof. reflexivity. Qed.

Lemma okat_many {A} (Q : A -> Prop) (item : DM A) : safeP 1 Q item ->
  forall (fuel : nat) acc s, dst_wf s -> (N.to_nat (d_len s - d_off s) < fuel)%nat ->
  okat 0 anyv (many fuel item acc) s.
Proof.
  intros Hi. induction fuel as [|f IH]; intros acc s W Hf; [lia|].
  rewrite many_S. change 0 with (0 + 0).
  destruct (is_finished_cases s) as [(Ho & E)|[(Ho & E)|(e & c & E)]].
  - unfold okat, bind. rewrite E. fold (bind item (fun x => many f item (x :: acc)) s).
    fold (okat 0 anyv (bind item (fun x => many f item (x :: acc))) s).
    eapply okat_weaken with (k := 1 + 0) (Q := anyv); [|lia|auto].
    eapply okat_bind; [apply Hi; exact W|].
    intros a s' _ W' Hl Hoff. apply IH; [exact W'|]. lia.
  - unfold okat, bind. rewrite E. unfold ret.
    split; [exact W|]. split; [reflexivity|]. split; [lia|exact I].
  - unfold okat, bind. rewrite E. exact I.
Qed.

Lemma okat_strings_loop :
  forall (fuel : nat) acc s, dst_wf s -> (N.to_nat (d_len s - d_off s) < fuel)%nat ->
  okat 0 anyv (strings_loop fuel acc) s.
Proof.
  induction fuel as [|f IH]; intros acc s W Hf; [lia|].
  rewrite strings_loop_S.
  destruct (is_finished_cases s) as [(Ho & E)|[(Ho & E)|(e & c & E)]].
  - unfold okat, bind. rewrite E. fold (bind string_ (fun x => strings_loop f (x :: acc)) s).
    fold (okat 0 anyv (bind string_ (fun x => strings_loop f (x :: acc))) s).
    eapply okat_weaken with (k := 1 + 0) (Q := anyv); [|lia|auto].
    eapply okat_bind; [apply safeP_string; exact W|].
    intros a s' _ W' Hl Hoff. apply IH; [exact W'|]. lia.
  - unfold okat, bind. rewrite E. unfold ret.
    split; [exact W|]. split; [reflexivity|]. split; [lia|exact I].
  - unfold okat, bind. rewrite E. exact I.
Qed.

(* fuel <- loop_fuel ;; f fuel : the fuel handed over exceeds the remaining octets *)
Lemma safeP_loop_fuel {B} k (R : B -> Prop) (f : nat -> DM B) :
  (forall s, dst_wf s -> okat k R (f (S (N.to_nat (d_len s - d_off s)))) s) ->
  safeP k R (bind loop_fuel f).
Proof. intros H s W. unfold okat, bind, loop_fuel. apply H. exact W. Qed.

Lemma safe0_many_loop {A B} (Q : A -> Prop) (item : DM A) (g : list A -> DM B) :
  safeP 1 Q item -> (forall l, safe0 (g l)) ->
  safe0 (fuel <- loop_fuel ;; l <- many fuel item [] ;; g l).
Proof.
  intros Hi Hg. apply safeP_loop_fuel. intros s W. change 0 with (0 + 0).
  eapply okat_bind; [eapply okat_many; [exact Hi|exact W|lia]|].
  intros l s' _ W' _ _. apply Hg. exact W'.
Qed.
