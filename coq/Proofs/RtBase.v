(* C05 — round-trip framework.
   Decoder side: [lreads main a m w r v]: on every window state that shows the octets of [main]
   from absolute offset [a] on and whose remaining octets are [w ++ r], the reader [m] consumes
   exactly [w] and returns [v] (the located version of SvcbDec.reads; names need [main]).
   Encoder side: [encP enc]: from a state with the masked invariant InvM, a successful run only
   appends, keeps the invariant (for some extension of the mask) and only extends the ghost log.
   Link: [decP E enc dec R]: whatever [enc] appended is read back by [dec] as a value satisfying [R],
   inside every final message [main] in which all logged names expand to themselves. *)
From DNS Require Import Model.Dec Model.Enc Spec.Names
  Proofs.ListN Proofs.NameLayer Proofs.NameLoop Proofs.NameMain Proofs.NameSlots
  Proofs.EncTotal Proofs.EncLimits
  Proofs.DecBase Proofs.DecName Proofs.DecNameSound Proofs.DecNameComplete
  Proofs.OptBase Proofs.SvcbDec.
Require Import ZArith ZifyBool ZifyN ZifyNat.
Local Open Scope N_scope.
Ltac Zify.zify_post_hook ::= Z.div_mod_to_equations.

Definition good (main : bytes) : Prop := bytes_ok main /\ lenN main < 2 ^ 62.

(* ================================================================================================ *)
(* Located reads                                                                                     *)
(* ================================================================================================ *)
Definition lreads {A} (main : bytes) (a : N) (m : DM A) (w r : bytes) (v : A) : Prop :=
  forall s : dst, wst s -> d_rest s = w ++ r -> views main s a ->
    exists c : N, m s = DOk v (mkst r (d_off s + lenN w) (d_len s) c).

Lemma lreads_of_reads {A} (main : bytes) (a : N) (m : DM A) (w r : bytes) (v : A) :
  reads m w r v -> lreads main a m w r v.
Proof. intros H s W Hr _. exact (H s W Hr). Qed.

Lemma lreads_value {A} (main : bytes) (a : N) (m : DM A) (w r : bytes) (v v' : A) :
  v = v' -> lreads main a m w r v -> lreads main a m w r v'.
Proof. intros ->. auto. Qed.

Lemma views_after (main : bytes) (s : dst) (a : N) (w r : bytes) (c : N) :
  wst s -> d_rest s = w ++ r -> views main s a ->
  views main (mkst r (d_off s + lenN w) (d_len s) c) (a + lenN w).
Proof.
  intros [W1 W2] Hr V. unfold views in *. unfold mkst. cbn [d_rest d_off d_len].
  assert (r = dropN (lenN w) (d_rest s)) as Er by (rewrite Hr, SvcbDec.dropN_app_exact; reflexivity).
  rewrite Er at 1. rewrite V. rewrite dropN_takeN, dropN_dropN. f_equal. lia.
Qed.

Lemma lreads_bind {A B} (main : bytes) (a : N) (m : DM A) (f : A -> DM B) (w1 w2 r : bytes) (x : A) (y : B) :
  lreads main a m w1 (w2 ++ r) x -> lreads main (a + lenN w1) (f x) w2 r y ->
  lreads main a (bind m f) (w1 ++ w2) r y.
Proof.
  intros H1 H2 s W Hr V. rewrite <- app_assoc in Hr.
  destruct (H1 s W Hr V) as [c1 E1]. rewrite (bind_ok _ _ _ _ _ E1).
  destruct (H2 _ (reads_after s w1 (w2 ++ r) c1 W Hr) eq_refl (views_after main s a w1 (w2 ++ r) c1 W Hr V))
    as [c2 E2].
  exists c2. rewrite E2. unfold mkst. cbn [d_off d_len]. rewrite lenN_app. f_equal. f_equal. lia.
Qed.

Lemma lreads_pure {A B} (main : bytes) (a : N) (m : DM A) (k : A -> DM B) (x : A) (w r : bytes) (v : B) :
  (forall s, m s = DOk x s) -> lreads main a (k x) w r v -> lreads main a (bind m k) w r v.
Proof. intros Hm H s W Hr V. rewrite (bind_ok _ _ _ _ _ (Hm s)). exact (H s W Hr V). Qed.

Lemma lreads_map {A B} (main : bytes) (a : N) (m : DM A) (g : A -> B) (w r : bytes) (x : A) :
  lreads main a m w r x -> lreads main a (bind m (fun y => ret (g y))) w r (g x).
Proof.
  intros H. rewrite <- (app_nil_r w). eapply lreads_bind; [|apply lreads_of_reads; apply reads_ret].
  cbn [app]. exact H.
Qed.

Lemma lreads_with_sub {A} (main : bytes) (a : N) (m : DM A) (w r : bytes) (v : A) :
  lreads main a m w [] v -> lreads main a (with_sub (lenN w) m) w r v.
Proof.
  intros H s W Hr V. rewrite with_sub_eq.
  destruct (reads_read w r s W Hr) as [c E]. rewrite E.
  assert (lenN w < WFMAX) as Hl.
  { destruct W as [W1 W2]. rewrite Hr, lenN_app in W1. lia. }
  set (c0 := d_cost (mkst r (d_off s + lenN w) (d_len s) c)).
  assert (views main (win w c0) a) as Vw.
  { unfold views, win, mkst. cbn [d_rest d_off d_len]. rewrite N.sub_0_r.
    unfold views in V.
    assert (w = takeN (lenN w) (d_rest s)) as Ew by (rewrite Hr, SvcbDec.takeN_app_exact; reflexivity).
    rewrite Ew at 1. rewrite V. apply takeN_takeN.
    destruct W as [W1 W2]. rewrite Hr, lenN_app in W1. lia. }
  destruct (H (win w c0) (win_wst w c0 Hl)) as [c' E'].
  { unfold win, mkst. cbn [d_rest]. rewrite app_nil_r. reflexivity. }
  { exact Vw. }
  unfold sub_run. rewrite (bind_ok _ _ _ _ _ E').
  unfold win, mkst in *. cbn [d_off d_len d_rest d_cost] in *. rewrite N.add_0_l.
  rewrite (bind_ok _ _ _ _ _ (finished_done _ (mkst_wst [] (lenN w) (lenN w) c' ltac:(unfold lenN; cbn [length]; lia) Hl) eq_refl)).
  exists c'. reflexivity.
Qed.

(* a window state is a well-formed decoder state when the message is *)
Lemma wst_views_wf (main : bytes) (s : dst) (a : N) : bytes_ok main -> wst s -> views main s a -> dst_wf s.
Proof.
  intros Hb [W1 W2] V. unfold dst_wf. split; [lia|]. split; [exact W2|]. split; [lia|].
  rewrite V. apply bytes_ok_takeN, bytes_ok_dropN. exact Hb.
Qed.

Lemma lreads_name (main : bytes) (a : N) (w r : bytes) (x : expansion) :
  good main -> expand 17 main a = Some x -> name_legal (x_name x) -> x_end x = a + lenN w ->
  lreads main a (domain_name main) w r (x_name x).
Proof.
  intros [Hb Hm] Hx Hleg Hend s W Hr V.
  pose proof (wst_views_wf main s a Hb W V) as Wf.
  assert (lenN w <= d_len s - d_off s) as Hwin.
  { destruct W as [W1 W2]. rewrite Hr, lenN_app in W1. lia. }
  destruct (name_complete main s a x Hb Hm Wf V Hx Hleg ltac:(lia)) as (s' & E & Ho & Hl & Hrest & _).
  rewrite Hend in Ho, Hrest. replace (a + lenN w - a) with (lenN w) in Ho, Hrest by lia.
  rewrite Hr, SvcbDec.dropN_app_exact in Hrest.
  exists (d_cost s'). rewrite E. f_equal. unfold mkst. destruct s' as [rest' off' len' cost'].
  cbn [d_rest d_off d_len d_cost] in *. subst off' len' rest'. reflexivity.
Qed.

(* what views + window content say about the message itself *)
Lemma views_split (main : bytes) (s : dst) (a : N) (w r : bytes) :
  wst s -> d_rest s = w ++ r -> views main s a -> w <> [] ->
  exists pre post, main = pre ++ w ++ post /\ lenN pre = a.
Proof.
  intros [W1 W2] Hr V Hne. unfold views in V. rewrite Hr in V.
  exists (takeN a main), (dropN (lenN w) (dropN a main)).
  assert (lenN w <= lenN (dropN a main)) as Hle.
  { assert (lenN (w ++ r) = lenN (takeN (d_len s - d_off s) (dropN a main))) as HL by (rewrite V; reflexivity).
    rewrite lenN_app, lenN_takeN in HL. lia. }
  assert (a <= lenN main) as Ha.
  { rewrite lenN_dropN in Hle. destruct w as [|b w']; [congruence|]. rewrite DecBase.lenN_cons in Hle. lia. }
  split; [|rewrite lenN_takeN; lia].
  rewrite <- (takeN_dropN_id a main) at 1. f_equal.
  rewrite <- (takeN_dropN_id (lenN w) (dropN a main)) at 1. f_equal.
  assert (takeN (lenN w) (w ++ r) = w) as E1 by apply SvcbDec.takeN_app_exact.
  rewrite V in E1. rewrite takeN_takeN in E1; [exact E1|].
  assert (lenN (w ++ r) = lenN (takeN (d_len s - d_off s) (dropN a main))) as HL by (rewrite V; reflexivity).
  rewrite lenN_app, lenN_takeN in HL. lia.
Qed.

(* ================================================================================================ *)
(* Encoder side                                                                                      *)
(* ================================================================================================ *)
Lemma sput_app_buf (st : est) (w : bytes) : sput st w = app_buf st w.
Proof. reflexivity. Qed.

(* a successful run appends some octets and touches neither the index nor the ghost log *)
Definition appends (enc : EM unit) : Prop :=
  forall st st', enc st = EOk tt st' -> exists w, st' = app_buf st w.

Lemma appends_emits (enc : EM unit) (w : bytes) : emits enc w -> appends enc.
Proof. intros H st st' E. rewrite H in E. exists w. congruence. Qed.
Lemma appends_put (b : bytes) : appends (put b).
Proof. apply (appends_emits _ b), emits_put. Qed.
Lemma appends_ret : appends (eret tt).
Proof. apply (appends_emits _ []), emits_ret. Qed.
Lemma appends_bind (e1 e2 : EM unit) : appends e1 -> appends e2 -> appends (_ <-- e1 ;; e2).
Proof.
  intros H1 H2 st st' E. unfold ebind in E. destruct (e1 st) as [[] s1|e|x|] eqn:E1; try discriminate.
  destruct (H1 _ _ E1) as [w1 ->]. destruct (H2 _ _ E) as [w2 ->]. exists (w1 ++ w2). apply app_buf_app.
Qed.
Lemma appends_estring (b : bytes) : appends (estring b).
Proof.
  intros st st' E. destruct (N.le_gt_cases (lenN b) 255) as [H|H].
  - rewrite (EncLimits.estring_ok b H) in E. exists (lenN b :: b). injection E as <-. reflexivity.
  - rewrite (estring_oversize b H) in E. discriminate.
Qed.
Lemma appends_emap {A} (f : A -> EM unit) (l : list A) : (forall x, In x l -> appends (f x)) -> appends (emap f l).
Proof.
  induction l as [|x l IH]; intros H; cbn [emap]; [apply appends_ret|].
  apply appends_bind; [apply H; left; reflexivity|apply IH; intros y Hy; apply H; right; exact Hy].
Qed.

Definition encP (enc : EM unit) : Prop :=
  forall st mask st', InvM st mask -> enc st = EOk tt st' ->
    (exists mw, InvM st' (mask ++ mw)) /\ incl (e_names st) (e_names st') /\
    (exists w, e_buf st' = e_buf st ++ w).

Lemma encP_appends (enc : EM unit) : appends enc -> encP enc.
Proof.
  intros H st mask st' HI E. destruct (H _ _ E) as [w ->].
  destruct (put_preserves st mask w HI) as (s' & Hp & Hb & HI').
  assert (s' = app_buf st w) as -> by (unfold put in Hp; unfold app_buf; congruence).
  split; [eexists; exact HI'|]. split; [apply incl_refl|]. exists w. reflexivity.
Qed.

Lemma encP_bind (e1 e2 : EM unit) : encP e1 -> encP e2 -> encP (_ <-- e1 ;; e2).
Proof.
  intros H1 H2 st mask st' HI E. unfold ebind in E. destruct (e1 st) as [[] s1|e|x|] eqn:E1; try discriminate.
  destruct (H1 st mask s1 HI E1) as ((mw1 & HI1) & Hn1 & w1 & Hb1).
  destruct (H2 s1 _ st' HI1 E) as ((mw2 & HI2) & Hn2 & w2 & Hb2).
  split; [exists (mw1 ++ mw2); rewrite app_assoc; exact HI2|].
  split; [eapply incl_tran; eassumption|]. exists (w1 ++ w2). rewrite Hb2, Hb1, app_assoc. reflexivity.
Qed.

Lemma encP_ret : encP (eret tt).
Proof. apply encP_appends, appends_ret. Qed.

Lemma encP_emap {A} (f : A -> EM unit) (l : list A) : (forall x, In x l -> encP (f x)) -> encP (emap f l).
Proof.
  induction l as [|x l IH]; intros H; cbn [emap]; [apply encP_ret|].
  apply encP_bind; [apply H; left; reflexivity|apply IH; intros y Hy; apply H; right; exact Hy].
Qed.

Lemma encP_name (n : name) : name_ok n -> encP (enc_domain_name n).
Proof.
  intros Hn st mask st' HI E.
  destruct (enc_domain_name_spec st mask n HI Hn) as [(s' & w & Hrun & Hb & _ & _ & Hnm & HI')|(k & Hf & _)].
  - rewrite Hrun in E. injection E as <-.
    split; [eexists; exact HI'|]. split; [rewrite Hnm; apply incl_tl, incl_refl|]. exists w. exact Hb.
  - rewrite Hf in E. discriminate.
Qed.

(* the pattern  create_length_index ;; body ;; set_length_index  *)
Definition slot (body : EM unit) : EM unit :=
  li <-- create_length_index ;; _ <-- body ;; set_length_index li.

Lemma slot_inv (body : EM unit) (st : est) (mask : list bool) (st' : est) :
  InvM st mask -> encP body -> slot body st = EOk tt st' ->
  exists s2 wb mw,
    InvM (sput st [0; 0]) (mask ++ [false; false]) /\
    body (sput st [0; 0]) = EOk tt s2 /\
    e_buf s2 = e_buf st ++ [0; 0] ++ wb /\ lenN wb < 65536 /\
    e_buf st' = e_buf st ++ u16b (lenN wb) ++ wb /\
    e_names st' = e_names s2 /\ incl (e_names st) (e_names s2) /\
    InvM st' (mask ++ [false; false] ++ mw).
Proof.
  intros HI Hbody E.
  destruct (create_length_index_preserves st mask HI) as (s1 & Hc & Hb1 & HI1 & Hun).
  assert (create_length_index st = EOk (lenN (e_buf st)) (sput st [0; 0])) as Hc' by reflexivity.
  assert (s1 = sput st [0; 0]) as -> by congruence. clear Hc'.
  unfold slot in E. pose proof E as E0. rewrite ebind_create in E. unfold ebind in E.
  destruct (body (sput st [0; 0])) as [[] s2|e|x|] eqn:Eb; try discriminate.
  destruct (Hbody _ _ _ HI1 Eb) as ((mw & HI2) & Hn2 & wb & Hb2).
  rewrite e_buf_sput, <- app_assoc in Hb2.
  pose proof (length_slot_spec body st s2 wb Eb Hb2) as Hs. rewrite E0 in Hs.
  destruct (lenN wb <? POW16) eqn:EL; [|discriminate]. injection Hs as ->.
  apply N.ltb_lt in EL. rewrite POW16_val in EL.
  destruct (set_length_index_preserves s2 _ (lenN (e_buf st)) _ HI2 (unmasked_app _ mw _ _ Hun) E) as [HI3 _].
  exists s2, wb, mw. cbn [e_buf e_names].
  split; [exact HI1|]. split; [reflexivity|]. split; [exact Hb2|]. split; [exact EL|].
  split; [reflexivity|]. split; [reflexivity|]. split; [exact Hn2|].
  rewrite <- app_assoc in HI3. exact HI3.
Qed.

Lemma encP_slot (body : EM unit) : encP body -> encP (slot body).
Proof.
  intros Hbody st mask st' HI E.
  destruct (slot_inv body st mask st' HI Hbody E) as (s2 & wb & mw & _ & _ & _ & _ & Hb & Hn & Hi & HI').
  split; [eexists; exact HI'|]. split; [rewrite Hn; exact Hi|]. eexists. exact Hb.
Qed.

(* ================================================================================================ *)
(* The link                                                                                          *)
(* ================================================================================================ *)
Definition names_ok (main : bytes) (log : list (N * name)) : Prop :=
  forall p n, In (p, n) log -> exists x, expand 16 main p = Some x /\ name_eqb n (x_name x) = true.

Lemma names_ok_incl (main : bytes) (l l' : list (N * name)) : incl l l' -> names_ok main l' -> names_ok main l.
Proof. intros Hi H p n Hin. apply H, Hi, Hin. Qed.

(* in the final buffer every logged name expands to itself *)
Lemma InvM_names_ok (st : est) (mask : list bool) : InvM st mask -> names_ok (e_buf st) (e_names st).
Proof.
  intros (_ & _ & H) p n Hin. destruct (H (e_buf st) (agree_refl _ _)) as [_ Hl].
  destruct (Hl _ Hin) as (x & H1 & _ & H3 & _). exists x. split; assumption.
Qed.

Definition wrote (st st' : est) : bytes := dropN (lenN (e_buf st)) (e_buf st').
Lemma wrote_app (st st' : est) (w : bytes) : e_buf st' = e_buf st ++ w -> wrote st st' = w.
Proof. intros H. unfold wrote. rewrite H. apply SvcbDec.dropN_app_exact. Qed.

Definition decP {A} (E : bool) (enc : EM unit) (dec : bytes -> DM A) (R : A -> Prop) : Prop :=
  forall st mask st', InvM st mask -> enc st = EOk tt st' ->
  forall main r, good main -> names_ok main (e_names st') -> (E = true -> r = []) ->
    exists v, R v /\ lreads main (lenN (e_buf st)) (dec main) (wrote st st') r v.

Lemma decP_weaken {A} E enc (dec : bytes -> DM A) (R R' : A -> Prop) :
  (forall v, R v -> R' v) -> decP E enc dec R -> decP E enc dec R'.
Proof.
  intros HR H st mask st' HI E0 main r G Hn HE. destruct (H st mask st' HI E0 main r G Hn HE) as (v & Hv & L).
  exists v. split; [apply HR; exact Hv|exact L].
Qed.

Lemma decP_end {A} E enc (dec : bytes -> DM A) (R : A -> Prop) : decP false enc dec R -> decP E enc dec R.
Proof. intros H st mask st' HI E0 main r G Hn _. apply (H st mask st' HI E0 main r G Hn). discriminate. Qed.

Lemma decP_ext {A} E enc enc' (dec : bytes -> DM A) (R : A -> Prop) :
  (forall st, enc' st = enc st) -> decP E enc dec R -> decP E enc' dec R.
Proof. intros He H st mask st' HI E0. rewrite He in E0. exact (H st mask st' HI E0). Qed.
Lemma encP_ext enc enc' : (forall st, enc' st = enc st) -> encP enc -> encP enc'.
Proof. intros He H st mask st' HI E0. rewrite He in E0. exact (H st mask st' HI E0). Qed.

(* name-free: the octets are a function of the value *)
Lemma decP_reads {A} E (enc : EM unit) (dec : DM A) (w : bytes) (v : A) :
  (forall st st', enc st = EOk tt st' -> st' = app_buf st w) ->
  (forall r, (E = true -> r = []) -> reads dec w r v) ->
  decP E enc (fun _ => dec) (eq v).
Proof.
  intros He Hd st mask st' HI E0 main r G Hn HE. rewrite (He _ _ E0).
  exists v. split; [reflexivity|]. rewrite (wrote_app st (app_buf st w) w eq_refl).
  apply lreads_of_reads, Hd, HE.
Qed.

Lemma decP_bind {A B} E (e1 e2 : EM unit) (d1 : bytes -> DM A) (d2 : A -> bytes -> DM B)
      (R1 : A -> Prop) (R2 : A -> B -> Prop) :
  encP e1 -> decP false e1 d1 R1 ->
  encP e2 -> (forall v1, R1 v1 -> decP E e2 (d2 v1) (R2 v1)) ->
  decP E (_ <-- e1 ;; e2) (fun main => v1 <- d1 main ;; d2 v1 main) (fun v => exists v1, R1 v1 /\ R2 v1 v).
Proof.
  intros P1 D1 P2 D2 st mask st' HI E0 main r G Hn HE.
  unfold ebind in E0. destruct (e1 st) as [[] s1|e|x|] eqn:E1; try discriminate.
  destruct (P1 st mask s1 HI E1) as ((mw1 & HI1) & Hn1 & w1 & Hb1).
  destruct (P2 s1 _ st' HI1 E0) as (_ & Hn2 & w2 & Hb2).
  destruct (D1 st mask s1 HI E1 main (w2 ++ r) G (names_ok_incl _ _ _ Hn2 Hn) ltac:(discriminate))
    as (v1 & Hv1 & L1).
  destruct (D2 v1 Hv1 s1 _ st' HI1 E0 main r G Hn HE) as (v & Hv & L2).
  exists v. split; [exists v1; split; assumption|].
  rewrite (wrote_app st s1 w1 Hb1) in L1. rewrite (wrote_app s1 st' w2 Hb2) in L2.
  rewrite (wrote_app st st' (w1 ++ w2)) by (rewrite Hb2, Hb1, app_assoc; reflexivity).
  eapply lreads_bind; [exact L1|].
  replace (lenN (e_buf st) + lenN w1) with (lenN (e_buf s1)) by (rewrite Hb1, lenN_app; reflexivity).
  exact L2.
Qed.

Lemma decP_pure {A B} E enc (m : DM A) (x : A) (k : A -> bytes -> DM B) (R : B -> Prop) :
  (forall s, m s = DOk x s) -> decP E enc (k x) R -> decP E enc (fun main => y <- m ;; k y main) R.
Proof.
  intros Hm H st mask st' HI E0 main r G Hn HE. destruct (H st mask st' HI E0 main r G Hn HE) as (v & Hv & L).
  exists v. split; [exact Hv|]. eapply lreads_pure; [exact Hm|exact L].
Qed.

Lemma decP_map {A B} E enc (dec : bytes -> DM A) (g : A -> B) (R : A -> Prop) :
  decP E enc dec R -> decP E enc (fun main => x <- dec main ;; ret (g x)) (fun y => exists x, R x /\ y = g x).
Proof.
  intros H st mask st' HI E0 main r G Hn HE. destruct (H st mask st' HI E0 main r G Hn HE) as (v & Hv & L).
  exists (g v). split; [exists v; split; [exact Hv|reflexivity]|]. apply lreads_map. exact L.
Qed.

Lemma decP_ret {A} E (v : A) : decP E (eret tt) (fun _ => ret v) (eq v).
Proof.
  apply (decP_reads E (eret tt) (ret v) [] v).
  - intros st st' E0. unfold eret in E0. rewrite app_buf_nil. congruence.
  - intros r _. apply reads_ret.
Qed.

Lemma decP_slot {A} E (body : EM unit) (dec : bytes -> DM A) (R : A -> Prop) :
  encP body -> decP true body dec R ->
  decP E (slot body) (fun main => n <- u16 ;; with_sub n (dec main)) R.
Proof.
  intros Pb Db st mask st' HI E0 main r G Hn _.
  destruct (slot_inv body st mask st' HI Pb E0) as (s2 & wb & mw & HI1 & Eb & Hb2 & Hlen & Hb & Hnm & _ & _).
  rewrite Hnm in Hn.
  destruct (Db _ _ s2 HI1 Eb main [] G Hn ltac:(reflexivity)) as (v & Hv & L).
  exists v. split; [exact Hv|].
  rewrite (wrote_app (sput st [0; 0]) s2 wb) in L by (rewrite e_buf_sput, <- app_assoc; exact Hb2).
  rewrite (wrote_app st st' _ Hb).
  eapply lreads_bind; [apply lreads_of_reads, reads_u16; exact Hlen|].
  replace (lenN (e_buf st) + lenN (u16b (lenN wb))) with (lenN (e_buf (sput st [0; 0])))
    by (rewrite e_buf_sput, lenN_app; reflexivity).
  apply lreads_with_sub. exact L.
Qed.

(* emap / repeat_dm *)
Lemma repeat_dm_S {A} (n : nat) (m : DM A) :
  repeat_dm (S n) m = (x <- m ;; r <- repeat_dm n m ;; ret (x :: r)).
Proof. reflexivity. Qed.

Lemma decP_emap {A B} (f : A -> EM unit) (dec : bytes -> DM B) (R : A -> B -> Prop) (l : list A) :
  (forall x, In x l -> encP (f x)) -> (forall x, In x l -> decP false (f x) dec (R x)) ->
  decP false (emap f l) (fun main => repeat_dm (length l) (dec main)) (fun vs => Forall2 R l vs).
Proof.
  induction l as [|x l IH]; intros HP HD.
  - cbn [emap length repeat_dm]. eapply decP_weaken; [|apply decP_ret]. intros v <-. constructor.
  - cbn [emap length]. 
    eapply decP_weaken; [|apply (decP_bind false (f x) (emap f l) dec
        (fun v1 main => r <- repeat_dm (length l) (dec main) ;; ret (v1 :: r)) (R x)
        (fun v1 vs => exists r, Forall2 R l r /\ vs = v1 :: r))].
    + intros vs (v1 & H1 & r & H2 & ->). constructor; assumption.
    + apply HP. left. reflexivity.
    + apply HD. left. reflexivity.
    + apply encP_emap. intros y Hy. apply HP. right. exact Hy.
    + intros v1 _. apply (decP_map false (emap f l) (fun main => repeat_dm (length l) (dec main)) (cons v1)).
      apply IH; intros y Hy; [apply HP|apply HD]; right; exact Hy.
Qed.
