(* C05 (success side) — the size/failure calculus of the encoder.
   [encT enc U]: from every state with the name invariant InvM, [enc] either succeeds and appends at
   most [U] octets, or fails with XLength and then  65535 < (buffer length) + U.
   [U] is instantiated with the uncompressed wire sizes of Spec/USize.v: every writer of a well-formed
   value satisfies [encT] with the [usize_*] of the value.  No other failure, no panic, no EIllTyped. *)
From DNS Require Import Model.Dec Model.Enc Spec.Names Spec.USize
  Proofs.ListN Proofs.NameLayer Proofs.NameLoop Proofs.NameMain Proofs.NameSlots
  Proofs.EncTotal Proofs.EncLimits Proofs.EncTyped
  Proofs.DecBase Proofs.OptBase Proofs.OptRt Proofs.C15 Proofs.SvcbSet Proofs.SvcbEnc
  Proofs.RtBase Proofs.RtPrim Proofs.RtFields Proofs.RtRecord Proofs.RtSpecial Proofs.RtApl Proofs.RtMsg
  Proofs.C05.
Require Import ZArith ZifyBool ZifyN ZifyNat.
Local Open Scope N_scope.
Ltac Zify.zify_post_hook ::= Z.div_mod_to_equations.

(* ================================================================================================ *)
(* sums                                                                                              *)
(* ================================================================================================ *)
Lemma sumN_app (a b : list N) : sumN (a ++ b) = sumN a + sumN b.
Proof. induction a as [|x a IH]; cbn [app sumN]; [reflexivity|]. rewrite IH. lia. Qed.

Lemma sumN_In {A} (u : A -> N) (l : list A) (x : A) : In x l -> u x <= sumN (map u l).
Proof.
  induction l as [|y l IH]; intros H; [contradiction|]. cbn [map sumN].
  destruct H as [->|H]; [lia|]. specialize (IH H). lia.
Qed.

Lemma sumN_ext {A} (u v : A -> N) (l : list A) : (forall x, In x l -> u x = v x) -> sumN (map u l) = sumN (map v l).
Proof.
  induction l as [|y l IH]; intros H; [reflexivity|]. cbn [map sumN].
  rewrite (H y (or_introl eq_refl)), IH; [reflexivity|]. intros x Hx. apply H. right. exact Hx.
Qed.

Lemma sumN_const {A} (u : A -> N) (c : N) (l : list A) : (forall x, u x = c) -> sumN (map u l) = c * lenN l.
Proof.
  intros H. induction l as [|y l IH]; [cbn [map sumN]; change (lenN (@nil A)) with 0; lia|].
  cbn [map sumN]. rewrite H, IH, ListN.lenN_cons. lia.
Qed.

Lemma sumN_ge_len {A} (u : A -> N) (l : list A) : (forall x, 1 <= u x) -> lenN l <= sumN (map u l).
Proof.
  intros H. induction l as [|y l IH]; [cbn; lia|].
  cbn [map sumN]. rewrite ListN.lenN_cons. specialize (H y). lia.
Qed.

Lemma lenN_concat_map {A} (g : A -> bytes) (l : list A) :
  lenN (concat (map g l)) = sumN (map (fun x => lenN (g x)) l).
Proof.
  induction l as [|y l IH]; [reflexivity|]. cbn [map concat sumN]. rewrite ListN.lenN_app, IH. reflexivity.
Qed.

(* ================================================================================================ *)
(* the calculus                                                                                      *)
(* ================================================================================================ *)
Definition encT (enc : EM unit) (U : N) : Prop :=
  forall (st : est) (mask : list bool), InvM st mask ->
    (exists st', enc st = EOk tt st' /\ lenN (e_buf st') <= lenN (e_buf st) + U) \/
    (exists k, enc st = EErr (XLength, [k]) /\ 65535 < lenN (e_buf st) + U).

Lemma encT_weaken (enc : EM unit) (U U' : N) : U <= U' -> encT enc U -> encT enc U'.
Proof.
  intros HU H st mask HI. destruct (H st mask HI) as [(st' & E & L)|(k & E & L)].
  - left. exists st'. split; [exact E|lia].
  - right. exists k. split; [exact E|lia].
Qed.

Lemma encT_ext (enc enc' : EM unit) (U : N) : (forall st, enc' st = enc st) -> encT enc U -> encT enc' U.
Proof. intros He H st mask HI. rewrite He. exact (H st mask HI). Qed.

Lemma encT_emits (enc : EM unit) (w : bytes) (U : N) : emits enc w -> lenN w <= U -> encT enc U.
Proof.
  intros He HU st mask _. left. exists (app_buf st w). split; [apply He|].
  unfold app_buf. cbn [e_buf]. rewrite ListN.lenN_app. lia.
Qed.

Lemma encT_put (b : bytes) (U : N) : lenN b <= U -> encT (put b) U.
Proof. apply encT_emits, emits_put. Qed.

Lemma encT_ret : encT (eret tt) 0.
Proof. apply (encT_emits _ []); [apply emits_ret|rewrite ListN.lenN_nil; lia]. Qed.

Lemma encT_bind (e1 e2 : EM unit) (U1 U2 : N) :
  encP e1 -> encT e1 U1 -> encT e2 U2 -> encT (_ <-- e1 ;; e2) (U1 + U2).
Proof.
  intros P1 T1 T2 st mask HI. unfold ebind.
  destruct (T1 st mask HI) as [(s1 & E1 & L1)|(k & E1 & L1)]; rewrite E1.
  - destruct (P1 st mask s1 HI E1) as ((mw & HI1) & _).
    destruct (T2 s1 _ HI1) as [(s2 & E2 & L2)|(k & E2 & L2)].
    + left. exists s2. split; [exact E2|lia].
    + right. exists k. split; [exact E2|lia].
  - right. exists k. split; [reflexivity|lia].
Qed.

Lemma encT_emap {A} (f : A -> EM unit) (u : A -> N) (l : list A) :
  (forall x, In x l -> encP (f x)) -> (forall x, In x l -> encT (f x) (u x)) ->
  encT (emap f l) (sumN (map u l)).
Proof.
  induction l as [|x l IH]; intros HP HT; cbn [emap map sumN]; [apply encT_ret|].
  apply encT_bind; [apply HP; left; reflexivity|apply HT; left; reflexivity|].
  apply IH; intros y Hy; [apply HP|apply HT]; right; exact Hy.
Qed.

(* names: compression only shrinks; the only failure is the 65535-octet limit *)
Lemma encT_name (n : name) : name_ok n -> encT (enc_domain_name n) (name_wire_len n).
Proof.
  intros Hn st mask HI.
  destruct (enc_domain_name_spec st mask n HI Hn) as [(s' & w & Hrun & Hb & _ & Hw2 & _)|(k & Hf & H1 & H2 & H3)].
  - left. exists s'. split; [exact Hrun|]. rewrite Hb, ListN.lenN_app. lia.
  - right. exists k. split; [exact Hf|lia].
Qed.

Lemma encT_name_wf (n : name) : name_wf n = true -> encT (enc_domain_name n) (usize_name n).
Proof. intros H. apply encT_name, name_wf_ok, H. Qed.

(* <character-string> *)
Lemma emits_estring (b : bytes) : lenN b <= 255 -> emits (estring b) (lenN b :: b).
Proof. intros H st. rewrite (EncLimits.estring_ok b H). reflexivity. Qed.

Lemma encT_estring (b : bytes) : lenN b <= 255 -> encT (estring b) (usize_str b).
Proof.
  intros H. apply (encT_emits _ (lenN b :: b)); [apply emits_estring; exact H|].
  unfold usize_str. rewrite ListN.lenN_cons. lia.
Qed.

Lemma str_wf_len (s : bytes) : str_wf s = true -> lenN s <= 255.
Proof. intros H. exact (proj2 (str_wf_inv s H)). Qed.

Lemma encT_estrings (l : list bytes) : forallb str_wf l = true -> encT (emap estring l) (sumN (map usize_str l)).
Proof.
  intros H. rewrite forallb_forall in H. apply encT_emap.
  - intros x _. apply encP_appends, appends_estring.
  - intros x Hx. apply encT_estring, str_wf_len, H, Hx.
Qed.

(* the length slot: the body's bound plus the two length octets; overflow of the slot is XLength
   with a body of at least 65536 octets *)
Lemma encT_slot (body : EM unit) (U : N) : encP body -> encT body U -> encT (slot body) (2 + U).
Proof.
  intros Pb Tb st mask HI.
  destruct (create_length_index_preserves st mask HI) as (s1 & Hc & _ & HI1 & _).
  assert (create_length_index st = EOk (lenN (e_buf st)) (sput st [0; 0])) as Hc' by reflexivity.
  assert (s1 = sput st [0; 0]) as -> by congruence. clear Hc Hc'.
  assert (lenN (e_buf (sput st [0; 0])) = lenN (e_buf st) + 2) as HL
    by (rewrite e_buf_sput, ListN.lenN_app; reflexivity).
  destruct (Tb _ _ HI1) as [(s2 & E2 & L2)|(k & E2 & L2)].
  - destruct (Pb _ _ _ HI1 E2) as (_ & _ & wb & Hb2). rewrite e_buf_sput, <- app_assoc in Hb2.
    pose proof (length_slot_spec body st s2 wb E2 Hb2) as Hs.
    assert (lenN wb <= U) as HU.
    { rewrite HL, Hb2, !ListN.lenN_app in L2. change (@lenN N [0; 0]) with 2 in L2. lia. }
    unfold slot. destruct (lenN wb <? POW16) eqn:EL.
    + left. eexists. split; [exact Hs|]. cbn [e_buf]. rewrite !ListN.lenN_app.
      change (lenN (u16b (lenN wb))) with 2. lia.
    + right. exists (lenN wb). split; [exact Hs|]. apply N.ltb_ge in EL. rewrite POW16_val in EL. lia.
  - right. exists k. split; [|lia]. unfold slot. rewrite ebind_create. unfold ebind. rewrite E2. reflexivity.
Qed.

(* the record frame *)
Lemma encT_rr_frame (nm : name) (ty cls ttl : N) (body : EM unit) (U : N) :
  name_wf nm = true -> encP body -> encT body U ->
  encT (rr_frame_enc nm ty cls ttl body) (usize_name nm + 10 + U).
Proof.
  intros Hn Pb Tb. unfold rr_frame_enc.
  apply (encT_weaken _ (usize_name nm + (2 + (2 + (4 + (2 + U)))))); [lia|].
  apply encT_bind; [apply encP_name_wf, Hn|apply encT_name_wf, Hn|].
  apply encT_bind; [apply encP_put|apply encT_put; reflexivity|].
  apply encT_bind; [apply encP_put|apply encT_put; reflexivity|].
  apply encT_bind; [apply encP_put|apply encT_put; reflexivity|].
  apply encT_slot; assumption.
Qed.

(* the closing range check of enc_dns *)
Lemma encT_final : encT (_ <-- get_offset ;; eret tt) 0.
Proof.
  intros st mask _. cbv beta iota delta [get_offset buf_len ebind eret efail].
  destruct (lenN (e_buf st) <? POW16) eqn:E.
  - left. exists st. split; [reflexivity|lia].
  - right. exists (lenN (e_buf st)). split; [reflexivity|]. apply N.ltb_ge in E. rewrite POW16_val in E. lia.
Qed.

(* ================================================================================================ *)
(* fields of the generated tables                                                                    *)
(* ================================================================================================ *)
Lemma encT_field (k : fk) (v : fv) : fv_wf k v = true -> encT (write_field k (Some v)) (usize_field k v).
Proof.
  destruct k; destruct v as [n|n|b|l|o]; cbn [fv_wf]; try discriminate; intros H;
    cbn [write_field usize_field];
    first [ apply encT_put; reflexivity
          | apply encT_estring; unfold str_wf in H; lia
          | apply encT_name_wf, H
          | apply encT_put; lia
          | apply encT_estrings; lia
          | destruct o as [s|]; [apply encT_estring; unfold str_wf in H; lia|apply encT_ret]
          | apply encT_estrings; apply andb_true_iff in H; exact (proj2 H) ].
Qed.

(* one field taken by name from the record *)
Definition usz1 (names : list string) (vals : list fv) (p : string * fk) : N :=
  if has_value (snd p)
  then match assoc (fst p) names vals with Some v => usize_field (snd p) v | None => 0 end
  else 1.

Lemma encT_field1 (names : list string) (vals : list fv) (nm : string) (k : fk) :
  field_wf names vals (nm, k) = true ->
  encT (write_field k (assoc nm names vals)) (usz1 names vals (nm, k)).
Proof.
  unfold field_wf, usz1. cbn [fst snd]. intros H.
  destruct k; try discriminate; cbn [has_value];
    try (destruct (assoc nm names vals) as [v0|] eqn:Ea; [|discriminate]; apply encT_field; exact H).
  match goal with
  | |- encT (write_field (FConst8 ?c ?e) ?o) _ =>
    assert (write_field (FConst8 c e) o = eu8 c) as -> by (destruct o as [[]|]; reflexivity)
  end.
  apply encT_put. reflexivity.
Qed.

Lemma encT_fields (names : list string) (vals : list fv) : forall f : list (string * fk),
  fields_wf names vals f = true ->
  encT (write_fields names vals f) (sumN (map (usz1 names vals) f)).
Proof.
  induction f as [|[nm k] r IH]; intros H; cbn [write_fields map sumN]; [apply encT_ret|].
  cbn [fields_wf] in H. apply andb_true_iff in H. destruct H as [H H3].
  apply andb_true_iff in H. destruct H as [H1 _].
  apply encT_bind; [exact (proj1 (rt_field1 names vals nm k H1))|apply encT_field1; exact H1|apply IH; exact H3].
Qed.

(* the by-name sum is the positional sum over the values the field list selects *)
Lemma fields_size_link (names : list string) (vals : list fv) : forall f : list (string * fk),
  fields_wf names vals f = true ->
  sumN (map (usz1 names vals) f) = usize_fields f (pickv names vals f).
Proof.
  induction f as [|[nm k] r IH]; intros H; [reflexivity|].
  cbn [fields_wf] in H. apply andb_true_iff in H. destruct H as [H H3].
  apply andb_true_iff in H. destruct H as [H1 _].
  cbn [map sumN pickv]. rewrite (IH H3). unfold usz1, pick1, field_wf in *. cbn [fst snd] in *.
  destruct k; try discriminate; cbn [has_value];
    try (destruct (assoc nm names vals) as [v0|]; [|discriminate]; cbn [app usize_fields]; reflexivity).
  cbn [app usize_fields]. reflexivity.
Qed.

(* ================================================================================================ *)
(* records                                                                                           *)
(* ================================================================================================ *)
Theorem encT_rr_plain (r : rr) : plain_wf r = true -> encT (enc_rr r) (usize_rr r).
Proof.
  unfold plain_wf. intros H. apply andb_true_iff in H. destruct H as [Hc H].
  destruct (common_wf_inv r Hc) as (Hn & Hty & Httl).
  destruct (lookup (r_type r) enc_dispatch) as [[ec f|sp]|] eqn:El; try discriminate.
  destruct (r_data r) as [vals| | |] eqn:Ed; try discriminate.
  apply andb_true_iff in H. destruct H as [Hv Hcl].
  pose proof (entry_agrees_lookup _ _ El) as Ha. unfold entry_agrees in Ha. rewrite El in Ha.
  destruct Ha as (ck & Hdec & Hcm & Hsh & Hnd).
  assert (dec_value_names (r_type r) = value_names f) as Evn by (unfold dec_value_names; rewrite Hdec; reflexivity).
  assert (dec_value_fields (r_type r) = filter (fun p => has_value (snd p)) f) as Evf
    by (unfold dec_value_fields; rewrite Hdec; reflexivity).
  rewrite Evf in Hv.
  destruct (fields_link f [] [] vals eq_refl (fun _ _ Hin => Hin) (nodupb_NoDup _ Hnd) Hsh Hv) as [Hfw Hpick].
  cbn [app] in Hfw, Hpick. destruct (rt_fields (value_names f) vals f Hfw) as [Pf _].
  apply (encT_ext (rr_frame_enc (r_name r) (r_type r) (match ec with ECField => r_class r | ECIn => CLASS_IN end)
                                (r_ttl r) (write_fields (value_names f) vals f))).
  { intros st. unfold enc_rr. rewrite El, Ed, Evn. reflexivity. }
  eapply encT_weaken; [|apply encT_rr_frame; [exact Hn|exact Pf|apply encT_fields; exact Hfw]].
  unfold usize_rr, usize_rdata. rewrite Ed, Hdec, (fields_size_link _ _ f Hfw), Hpick. lia.
Qed.

(* ---- the address of ECS and APL: the specification's count is the encoder's ---- *)
Lemma usize_addr_significant_eq : forall oct : bytes, usize_addr_significant oct = addr_significant oct.
Proof.
  induction oct as [|b r IH]; [symmetry; apply addr_significant_nil|].
  rewrite addr_significant_cons. cbn [usize_addr_significant]. rewrite IH. reflexivity.
Qed.
Lemma usize_addr_cut_eq (least : N) (a : addr) :
  usize_addr_cut least a = lenN (takeN (N.max (addr_significant (a_oct a)) least) (a_oct a)).
Proof. unfold usize_addr_cut. rewrite usize_addr_significant_eq, lenN_takeN. reflexivity. Qed.

(* ---- OPT ---- *)
Lemma lenN_opt_wire (o : ednsopt) : opt_valid o -> lenN (opt_wire o) = usize_option o.
Proof.
  intros V. rewrite opt_wire_len. destruct o as [e|c|n]; cbn [opt_body usize_option opt_valid] in *.
  - destruct V as [[W _] _]. destruct (ecs_body_len e W) as [-> _].
    rewrite usize_addr_cut_eq. reflexivity.
  - unfold cookie_body. rewrite ListN.lenN_app. destruct (c_server c); [reflexivity|reflexivity].
  - rewrite lenN_zeros, N2Nat.id. reflexivity.
Qed.

Theorem encT_rr_opt (r : rr) : opt_rr_wf r = true -> encT (enc_rr r) (usize_rr r).
Proof.
  unfold opt_rr_wf. intros H. apply andb_true_iff in H. destruct H as [H Hd].
  apply andb_true_iff in H. destruct H as [H _]. apply andb_true_iff in H. destruct H as [H _].
  apply andb_true_iff in H. destruct H as [Hty Hnm]. apply N.eqb_eq in Hty.
  destruct (r_name r) as [|l0 n0] eqn:En; [|discriminate].
  destruct (r_data r) as [|payload ext ver dnssec opts| |] eqn:Ed; try discriminate.
  apply andb_true_iff in Hd. destruct Hd as [_ Ho]. pose proof (opts_wfb_valid opts Ho) as V.
  apply (encT_ext (rr_frame_enc [] 41 payload (enc_opt_ttl ext ver dnssec) (emap enc_edns_option opts))).
  { intros st. unfold enc_rr. rewrite Hty, lookup_opt_enc, Ed. reflexivity. }
  eapply encT_weaken; [|apply encT_rr_frame;
    [reflexivity|apply encP_appends, (appends_emits _ _ (emits_options opts V))
    |apply (encT_emits _ _ _ (emits_options opts V)), N.le_refl]].
  unfold usize_rr, usize_rdata. rewrite En, Ed. unfold opts_wire. rewrite lenN_concat_map.
  rewrite (sumN_ext _ usize_option); [lia|].
  intros o Hin. apply lenN_opt_wire. exact (proj1 (Forall_forall _ _) V o Hin).
Qed.

(* ---- APL ---- *)
Lemma lenN_apitem_wire (i : apitem) : lenN (apitem_wire i) = usize_apitem i.
Proof.
  unfold apitem_wire, usize_apitem, apl_cut. rewrite usize_addr_cut_eq, N.max_0_r.
  rewrite !ListN.lenN_app, lenN_u16b, !lenN_u8b. lia.
Qed.

Theorem encT_rr_apl (r : rr) : apl_rr_wf r = true -> encT (enc_rr r) (usize_rr r).
Proof.
  unfold apl_rr_wf. intros H. apply andb_true_iff in H. destruct H as [H Hd].
  apply andb_true_iff in H. destruct H as [H _]. apply andb_true_iff in H. destruct H as [Hc Hty].
  destruct (common_wf_inv r Hc) as (Hn & _). apply N.eqb_eq in Hty.
  destruct (r_data r) as [| |items|] eqn:Ed; try discriminate.
  apply (encT_ext (rr_frame_enc (r_name r) (r_type r) CLASS_IN (r_ttl r) (emap enc_apitem items))).
  { intros st. unfold enc_rr. rewrite Hty, lookup_apl_enc, Ed. reflexivity. }
  eapply encT_weaken; [|apply encT_rr_frame;
    [exact Hn|apply encP_appends, (appends_emits _ _ (apl_items_emits items Hd))
    |apply (encT_emits _ _ _ (apl_items_emits items Hd)), N.le_refl]].
  unfold usize_rr, usize_rdata. rewrite Ed, lenN_concat_map.
  rewrite (sumN_ext _ usize_apitem); [lia|]. intros i _. apply lenN_apitem_wire.
Qed.

(* ---- SVCB / HTTPS ---- *)
Lemma lenN_value_bytes (p : svcparam) : lenN (value_bytes p) = usize_param_value p.
Proof.
  destruct p as [keys|ids| |port|h|cl|h|n d| ]; cbn [value_bytes usize_param_value]; try reflexivity.
  - rewrite lenN_concat_map, (sumN_const _ 2) by reflexivity.
    unfold lenN. rewrite sort_keys_length. reflexivity.
  - rewrite lenN_concat_map. apply sumN_ext. intros b _. unfold usize_str. apply ListN.lenN_cons.
  - rewrite lenN_concat_map. apply (sumN_const _ 4). reflexivity.
  - rewrite ListN.lenN_app, lenN_u16b. reflexivity.
  - rewrite <- (map_id h) at 1. apply lenN_concat_map.
Qed.

Lemma lenN_param_wire (p : svcparam) : lenN (param_wire p) = usize_param p.
Proof.
  unfold param_wire, usize_param. rewrite !ListN.lenN_app, !lenN_u16b, lenN_value_bytes. lia.
Qed.

Lemma param_wfb_fits (p : svcparam) : param_wfb p = true -> value_fits p.
Proof.
  destruct p as [keys|ids| |port|h|cl|h|n d| ]; cbn [param_wfb value_fits]; intros H; try exact I.
  - rewrite Forall_forall. rewrite forallb_forall in H. intros b Hb. apply str_wf_len, H, Hb.
  - lia.
Qed.

Lemma appends_param (p : svcparam) : appends (enc_service_parameter p).
Proof.
  intros st st' E. rewrite enc_param_trace in E. destruct (param_err p); [discriminate|].
  exists (param_wire p). injection E as <-. reflexivity.
Qed.

Lemma encT_param (p : svcparam) : param_wfb p = true -> encT (enc_service_parameter p) (usize_param p).
Proof.
  intros H st mask _. rewrite enc_param_trace. unfold param_err.
  rewrite (proj2 (value_err_none_iff p) (param_wfb_fits p H)).
  destruct (lenN (value_bytes p) <? 65536) eqn:E.
  - left. eexists. split; [reflexivity|]. cbn [with_buf e_buf]. rewrite ListN.lenN_app, lenN_param_wire. lia.
  - right. exists (lenN (value_bytes p)). split; [reflexivity|].
    apply N.ltb_ge in E. unfold usize_param. rewrite <- lenN_value_bytes. lia.
Qed.

Theorem encT_rr_svcb (r : rr) : svcb_rr_wf r = true -> encT (enc_rr r) (usize_rr r).
Proof.
  unfold svcb_rr_wf. intros H. apply andb_true_iff in H. destruct H as [H Hd].
  apply andb_true_iff in H. destruct H as [H _]. apply andb_true_iff in H. destruct H as [Hc Hty].
  destruct (common_wf_inv r Hc) as (Hn & _).
  assert (r_type r = 64 \/ r_type r = 65) as Ht by lia.
  destruct (r_data r) as [| | |prio target params] eqn:Ed; try discriminate.
  apply andb_true_iff in Hd. destruct Hd as [Hd _]. apply andb_true_iff in Hd. destruct Hd as [Hd _].
  apply andb_true_iff in Hd. destruct Hd as [Hd Hpw]. apply andb_true_iff in Hd. destruct Hd as [_ Htgt].
  rewrite forallb_forall in Hpw.
  assert (encP (if negb (prio =? 0) then emap enc_service_parameter params else eret tt)) as Pp.
  { destruct (negb (prio =? 0)); [|apply encP_ret].
    apply encP_emap. intros p _. apply encP_appends, appends_param. }
  assert (encT (if negb (prio =? 0) then emap enc_service_parameter params else eret tt)
               (if prio =? 0 then 0 else sumN (map usize_param params))) as Tp.
  { destruct (prio =? 0); cbn [negb]; [apply encT_ret|].
    apply encT_emap; [intros p _; apply encP_appends, appends_param|].
    intros p Hp. apply encT_param, Hpw, Hp. }
  apply (encT_ext (rr_frame_enc (r_name r) (r_type r) CLASS_IN (r_ttl r) (svcb_body prio target params))).
  { intros st. apply enc_rr_svcb_frame; assumption. }
  eapply encT_weaken; [|apply encT_rr_frame; [exact Hn| |]].
  - unfold usize_rr, usize_rdata. rewrite Ed. apply N.le_refl.
  - unfold svcb_body. apply encP_bind; [apply encP_put|]. apply encP_bind; [apply encP_name_wf, Htgt|exact Pp].
  - unfold svcb_body. rewrite <- N.add_assoc.
    apply encT_bind; [apply encP_put|apply encT_put; reflexivity|].
    apply encT_bind; [apply encP_name_wf, Htgt|apply encT_name_wf, Htgt|exact Tp].
Qed.

(* ---- every supported record ---- *)
Theorem encT_rr (r : rr) : rr_wf r = true -> encT (enc_rr r) (usize_rr r).
Proof.
  unfold rr_wf. destruct (lookup (r_type r) enc_dispatch) as [[ec f|[| | |]]|]; intros H; try discriminate.
  - apply encT_rr_plain, H.
  - apply encT_rr_opt, H.
  - apply encT_rr_apl, H.
  - apply encT_rr_svcb, H.
  - apply encT_rr_svcb, H.
Qed.

Theorem encT_question (q : question) : question_wf q = true -> encT (enc_question q) (usize_question q).
Proof.
  intros H. destruct (question_wf_inv q H) as (Hn & _). unfold enc_question, usize_question.
  apply (encT_weaken _ (usize_name (q_name q) + (2 + 2))); [lia|].
  apply encT_bind; [apply encP_name_wf, Hn|apply encT_name_wf, Hn|].
  apply encT_bind; [apply encP_put|apply encT_put; reflexivity|apply encT_put; reflexivity].
Qed.
