(* Address prefixes (RFC 3123 / RFC 7871): the model's zero-filled address + mask-based prefix check vs the
   reference's arithmetic [prefix_addr]. Shared by the ECS option and the APL item. *)
From Coq Require Import ZifyBool ZifyN ZifyNat.
From DNS Require Import Model.Dec Spec.Wire Proofs.DecBase Proofs.C12 Proofs.CorrPrefix
  Proofs.CorrBase Proofs.CorrPrim.
From DNS Require Proofs.OptBase Proofs.OptDec.
Local Open Scope N_scope.

(* the address octets present, zero filled; no prefix check *)
Definition raw_addr (fam : N) : P addr := fun b s e =>
  match Wire.fam_size fam with
  | None => None
  | Some size =>
    match rest b s e with
    | Some (x, s') =>
      if lenN x <=? size
      then Some ({| a_fam := fam; a_oct := x ++ zeros (N.to_nat (size - lenN x)) |}, s') else None
    | None => None
    end
  end.

Definition chk (prefix : N) (a : addr) : bool :=
  (prefix <=? 8 * addr_size a) && (be (a_oct a) mod 2 ^ (8 * addr_size a - prefix) =? 0).

Lemma prefix_addr_eq (fam prefix : N) (b : bytes) (s e : N) :
  prefix_addr fam prefix b s e = (a <~ raw_addr fam ;; if chk prefix a then pret a else pnone) b s e.
Proof.
  unfold prefix_addr, raw_addr, pbind, Wire.fam_size.
  destruct (fam =? 1) eqn:E1.
  - destruct (rest b s e) as [[x s']|]; [|reflexivity]. destruct (lenN x <=? 4); [|reflexivity].
    cbv zeta. unfold chk, addr_size. cbn [a_fam a_oct]. rewrite E1.
    match goal with |- context [if ?c then Some _ else None] => destruct c end; reflexivity.
  - destruct (fam =? 2) eqn:E2; [|reflexivity].
    destruct (rest b s e) as [[x s']|]; [|reflexivity]. destruct (lenN x <=? 16); [|reflexivity].
    cbv zeta. unfold chk, addr_size. cbn [a_fam a_oct]. rewrite E1.
    match goal with |- context [if ?c then Some _ else None] => destruct c end; reflexivity.
Qed.

Lemma raw_addr_none (fam : N) (b : bytes) (s e : N) : fam <> 1 -> fam <> 2 -> raw_addr fam b s e = None.
Proof.
  intros H1 H2. unfold raw_addr, Wire.fam_size.
  assert (fam =? 1 = false) as -> by lia. assert (fam =? 2 = false) as -> by lia. reflexivity.
Qed.
Lemma prefix_addr_none (fam prefix : N) (b : bytes) (s e : N) : fam <> 1 -> fam <> 2 ->
  prefix_addr fam prefix b s e = None.
Proof.
  intros H1 H2. unfold prefix_addr, Wire.fam_size.
  assert (fam =? 1 = false) as -> by lia. assert (fam =? 2 = false) as -> by lia. reflexivity.
Qed.

Lemma prefix_addr_inv (fam prefix : N) (b : bytes) (s e : N) (a : addr) (s' : N) :
  prefix_addr fam prefix b s e = Some (a, s') -> s <= e /\ s' = e.
Proof.
  unfold prefix_addr. destruct (Wire.fam_size fam); [|discriminate].
  destruct (rest b s e) as [[x s1]|] eqn:E; [|discriminate]. apply rest_inv in E.
  destruct (lenN x <=? n); [|discriminate]. cbv zeta.
  destruct ((prefix <=? 8 * n) && _); [|discriminate]. intro H. injection H as <- <-. lia.
Qed.

(* a successful check and a position-preserving filter commute with the exact sub-range *)
Lemma within_filter {A} (n : N) (p : P A) (c : A -> bool) (b : bytes) (a e : N) :
  within n (x <~ p ;; if c x then pret x else pnone) b a e =
  (x <~ within n p ;; if c x then pret x else pnone) b a e.
Proof.
  unfold within, pbind, pret, pnone. destruct (a + n <=? e); [|reflexivity].
  destruct (p b a (a + n)) as [[x a1]|]; [|reflexivity].
  destruct (c x) eqn:Ec; destruct (a1 =? a + n) eqn:Ea; cbv beta iota; rewrite ?Ec, ?Ea; reflexivity.
Qed.

Lemma within_ext {A} (n : N) (p p' : P A) (b : bytes) (a e : N) :
  (forall a e, p b a e = p' b a e) -> within n p b a e = within n p' b a e.
Proof. intro H. unfold within. rewrite H. reflexivity. Qed.

Lemma pbind_ext {A B} (p : P A) (g g' : A -> P B) (b : bytes) (a e : N) :
  (forall v a e, g v b a e = g' v b a e) -> pbind p g b a e = pbind p g' b a e.
Proof. intro H. unfold pbind. destruct (p b a e) as [[v a1]|]; [apply H|reflexivity]. Qed.

Lemma chk_cases (p : N) (a : addr) : addr_wf a ->
  (chk p a = true /\ check_prefix a p = Ok tt) \/ (chk p a = false /\ exists e, check_prefix a p = Err e).
Proof.
  intro W. unfold chk. pose proof (check_prefix_mod a p W) as H.
  destruct ((p <=? 8 * addr_size a) && (be (a_oct a) mod 2 ^ (8 * addr_size a - p) =? 0)).
  - left. split; [reflexivity|]. apply H. reflexivity.
  - right. split; [reflexivity|]. apply check_prefix_not_ok; [exact W|].
    intro E. apply H in E. discriminate.
Qed.

Section Main.
Variable main : bytes.
Hypothesis Hb : bytes_ok main.
Hypothesis Hm : lenN main < 2 ^ 62.
Set Default Proof Using "Hb Hm".

Notation corr := (corr main).
Notation post := (post main).

Lemma corr_address (fam : N) : fam = 1 \/ fam = 2 -> corr (rr_address fam) (raw_addr fam).
Proof.
  intros Hf s a e Hi. pose proof Hi as (W & V & H1 & H2 & H3).
  rewrite (OptDec.rr_address_spec fam s H1 Hf).
  pose proof (corr_vec main Hb Hm s a e Hi) as Hv. rewrite (OptBase.vec_ok s H1) in Hv.
  unfold raw_addr.
  assert (Wire.fam_size fam = Some (OptDec.fam_size fam)) as ->.
  { unfold Wire.fam_size, OptDec.fam_size. destruct Hf as [-> | ->]; reflexivity. }
  destruct (rest main a e) as [[x a1]|]; cbn [agree CorrBase.agree] in Hv; [|contradiction].
  destruct Hv as (<- & Ha & I1 & Ho & Hl).
  destruct (OptDec.fam_size fam <? lenN (d_rest s)) eqn:E.
  - assert (lenN (d_rest s) <=? OptDec.fam_size fam = false) as -> by lia. exact I.
  - assert (lenN (d_rest s) <=? OptDec.fam_size fam = true) as -> by lia.
    cbn [agree CorrBase.agree]. split; [reflexivity|]. split; [exact Ha|]. split; [exact I1|].
    split; [exact Ho|exact Hl].
Qed.

Lemma post_raw_addr (fam : N) : post (raw_addr fam) (fun a => addr_wf a).
Proof.
  intros a e v a' He H. unfold raw_addr, Wire.fam_size in H.
  destruct (fam =? 1) eqn:E1.
  - destruct (rest main a e) as [[x s']|] eqn:Er; [|discriminate].
    destruct (lenN x <=? 4) eqn:El; [|discriminate].
    assert (Hv : v = OptDec.zero_fill fam x)
      by (unfold OptDec.zero_fill, OptDec.fam_size; rewrite E1; congruence). subst v.
    apply (OptDec.zero_fill_wf fam x); [left; lia|unfold OptDec.fam_size; rewrite E1; lia|].
    exact (post_rest main Hb Hm a e x s' He Er).
  - destruct (fam =? 2) eqn:E2; [|discriminate].
    destruct (rest main a e) as [[x s']|] eqn:Er; [|discriminate].
    destruct (lenN x <=? 16) eqn:El; [|discriminate].
    assert (Hv : v = OptDec.zero_fill fam x)
      by (unfold OptDec.zero_fill, OptDec.fam_size; rewrite E1; congruence). subst v.
    apply (OptDec.zero_fill_wf fam x); [right; lia|unfold OptDec.fam_size; rewrite E1; lia|].
    exact (post_rest main Hb Hm a e x s' He Er).
Qed.

(* the validated constructors: Ok exactly when the arithmetic condition holds *)
Lemma corr_checked {B} (a : addr) (p : N) (v : B) : addr_wf a ->
  corr (lift (match check_prefix a p with
              | Ok _ => Ok v | Err x => Err x | Panic x => Panic x | OutOfFuel => OutOfFuel end))
       (if chk p a then pret v else pnone).
Proof.
  intro W. destruct (chk_cases p a W) as [(-> & ->)|(-> & er & ->)]; cbn [lift];
    [apply corr_ret|apply corr_fail].
Qed.

End Main.
Unset Default Proof Using.
