(* C08, last clause: "a value that cannot be represented yields an error, never a message that decodes
   to something else or not at all".

   Every conjunct of [dns_wf] (the hypothesis of the round trip C05) comes from one of three sources:
     (A) api_ok        the Rust types                                  (Proofs/OkApi.v)
     (B) enc_Dns = Ok  the encoder checked it, else it had reported an error (Proofs/OkInv.v)
     (C) known_class   it is one of the four known defect classes KF4..KF7, excluded by hypothesis
   Conjunct by conjunct:
     m_id < 2^16 ............................ A (u16)
     flags_wf: opcode, rcode in table ....... A (Opcode, RCode);   rcode < 16 ........ C (KF4)
     question_wf ............................ A (DomainName, QType, QClass)
     section lengths <= 65535 ............... B (enc_count)
     rr_wf, per dispatch entry:
       rr_common_wf (owner, TYPE, TTL) ...... A
       plain_wf: class ...................... A (Class / no class field)
                 vals_wf, per field kind: widths, names, enums, digits, hex digits, tag alphabet and
                 non-emptiness, non-empty TXT list, DNSKEY reserved bits, 16 address octets ... A
                 every character string <= 255 octets (FStr, FStrPsdn, FStrIsdn, FOptStrSa,
                 FStrGpos, FTag, FStrs1) ................................................ B (estring)
                 GPOS string >= 1 octet ................................................. C (KF5)
       opt_rr_wf ............................ A entirely (ECS::new, Cookie::new, u8/u16 fields)
       apl_rr_wf ............................ A entirely (APItem::new)
       svcb_rr_wf: priority, target, class, sorted keys, per-parameter widths ........... A
                 alpn ids <= 255 octets, ech <= 65535 octets ............................ B
                 PRIVATE number in 7..=65534 ............................................ A (u16) + C (KF6)
                 priority 0 => no parameters ............................................ C (KF7)
   No conjunct is left over: no new defect class. *)
From DNS Require Import Model.Dec Model.Enc Spec.Wire Proofs.ListN
  Proofs.EncTotal Proofs.EncLimits Proofs.EncTyped Proofs.SvcbEnc Proofs.SvcbRound
  Proofs.RtPrim Proofs.RtFields Proofs.RtRecord Proofs.RtSpecial Proofs.RtApl Proofs.RtMsg
  Proofs.C05 Proofs.C05ref Proofs.OkApi Proofs.OkInv.
Require Import ZArith ZifyBool ZifyN ZifyNat.
Local Open Scope N_scope.
Ltac Zify.zify_post_hook ::= Z.div_mod_to_equations.

Lemma existsb_false_In {A} (f : A -> bool) (l : list A) (x : A) :
  existsb f l = false -> In x l -> f x = false.
Proof.
  intros H Hx. destruct (f x) eqn:E; [|reflexivity].
  assert (existsb f l = true) as Hc by (apply existsb_exists; exists x; split; assumption). congruence.
Qed.

(* ================================================================================================ *)
(* KF5 is exactly "a GPOS string is empty": the GPOS string kind occurs in type 27 only              *)
(* ================================================================================================ *)
Definition no_gpos (ks : list fk) : bool :=
  forallb (fun k => match k with FStrGpos => false | _ => true end) ks.
Definition rd_no_gpos (p : N * reader) : bool :=
  (fst p =? 27) ||
  match snd p with
  | RdFields _ f => no_gpos (map snd (filter (fun q => has_value (snd q)) f))
  | RdSpecial _ => true
  end.
Lemma dec_table_gpos : forallb rd_no_gpos dec_dispatch = true.
Proof. vm_compute. reflexivity. Qed.

Lemma gpos_only_27 (t : N) : (t =? 27) = false -> no_gpos (map snd (dec_value_fields t)) = true.
Proof.
  intros Ht. unfold dec_value_fields.
  destruct (lookup t dec_dispatch) as [[c f|sp]|] eqn:El; try reflexivity.
  pose proof (proj1 (forallb_forall _ _) dec_table_gpos _ (lookup_in _ _ _ El)) as H.
  unfold rd_no_gpos in H. cbn [fst snd] in H. rewrite Ht in H. exact H.
Qed.

Lemma no_gpos_ok : forall (ks : list fk) (vals : list fv), no_gpos ks = true -> gpos_ok ks vals = true.
Proof.
  induction ks as [|k ks IH]; intros [|v vals] H; try reflexivity.
  cbn [no_gpos forallb] in H. apply andb_true_iff in H. destruct H as [H1 H2].
  cbn [gpos_ok]. rewrite (IH vals H2), andb_true_r. destruct k; try reflexivity. discriminate.
Qed.

Lemma no_empty_ok : forall (ks : list fk) (vals : list fv),
  existsb is_empty_str vals = false -> gpos_ok ks vals = true.
Proof.
  induction ks as [|k ks IH]; intros [|v vals] H; try reflexivity.
  cbn [existsb] in H. apply orb_false_iff in H. destruct H as [H1 H2].
  cbn [gpos_ok]. rewrite (IH vals H2), andb_true_r.
  destruct k; try reflexivity. destruct v as [n|n|b|l|o]; try reflexivity.
  destruct b; [discriminate|reflexivity].
Qed.

Lemma kf5_gpos (r : rr) (vals : list fv) :
  r_data r = RFields vals -> kf5_rr r = false -> gpos_ok (map snd (dec_value_fields (r_type r))) vals = true.
Proof.
  unfold kf5_rr. intros -> H. destruct (r_type r =? 27) eqn:Et.
  - cbn [andb] in H. apply no_empty_ok. exact H.
  - apply no_gpos_ok, gpos_only_27. exact Et.
Qed.

(* ================================================================================================ *)
(* one record: written + typed + not in a known class  ==>  well-formed                              *)
(* ================================================================================================ *)
Lemma plain_enforced (r : rr) (s s' : est) :
  api_plain r = true -> kf5_rr r = false -> enc_rr r s = EOk tt s' -> plain_wf r = true.
Proof.
  unfold api_plain, plain_wf. intros H Hk E. apply andb_true_iff in H. destruct H as [Hc H].
  change (api_common r) with (rr_common_wf r) in Hc. rewrite Hc. cbn [andb].
  unfold enc_rr in E.
  destruct (lookup (r_type r) enc_dispatch) as [[ec f|sp]|] eqn:El; try discriminate.
  destruct (r_data r) as [vals| | |] eqn:Ed; try discriminate.
  apply andb_true_iff in H. destruct H as [Hv Hcl]. rewrite Hcl, andb_true_r.
  pose proof (entry_agrees_lookup _ _ El) as Ha. unfold entry_agrees in Ha. rewrite El in Ha.
  destruct Ha as (ck & Hdec & _ & _ & Hnd).
  assert (dec_value_names (r_type r) = value_names f) as Evn by (unfold dec_value_names; rewrite Hdec; reflexivity).
  assert (dec_value_fields (r_type r) = filter (fun p => has_value (snd p)) f) as Evf
    by (unfold dec_value_fields; rewrite Hdec; reflexivity).
  pose proof (kf5_gpos r vals Ed Hk) as Hg.
  rewrite Evf in Hv, Hg |- *. rewrite Evn in E.
  (* the path to the field writer: owner, type, class, ttl, the length slot *)
  binv E. binv E. binv E. binv E. binv E. binv E. destruct a4.
  apply (vals_enforced f [] [] vals s4 s5 eq_refl (fun _ _ Hin => Hin) (nodupb_NoDup _ Hnd) Hv Hg).
  exact Ea4.
Qed.

Lemma svcb_enforced (r : rr) (s s' : est) :
  api_svcb_rr r = true -> kf6_rr r = false -> kf7_rr r = false -> enc_rr r s = EOk tt s' ->
  svcb_rr_wf r = true.
Proof.
  unfold api_svcb_rr, svcb_rr_wf, kf6_rr, kf7_rr. intros H K6 K7 E.
  apply andb_true_iff in H. destruct H as [H Hd]. apply andb_true_iff in H. destruct H as [H Hcl].
  apply andb_true_iff in H. destruct H as [Hc Hty].
  change (api_common r) with (rr_common_wf r) in Hc. rewrite Hc, Hty, Hcl. cbn [andb].
  assert (r_type r = 64 \/ r_type r = 65) as Ht by lia.
  destruct (r_data r) as [| | |prio target params] eqn:Ed; try discriminate.
  apply andb_true_iff in Hd. destruct Hd as [Hd Hks]. apply andb_true_iff in Hd. destruct Hd as [Hd Hpar].
  apply andb_true_iff in Hd. destruct Hd as [Hprio Htgt]. rewrite Hprio, Htgt, Hks. cbn [andb]. rewrite andb_true_r.
  destruct (prio =? 0) eqn:Ep.
  - (* alias form: not KF7, so no parameters *)
    cbn [andb negb orb] in *. destruct params as [|p ps]; [reflexivity|discriminate K7].
  - (* service form: the parameter writer ran *)
    cbn [negb orb]. rewrite andb_true_r.
    rewrite (enc_rr_svcb r prio target params Ht Ed) in E. unfold enc_svcb_rr in E. rewrite Ep in E. cbn [negb] in E.
    binv E. binv E. binv E. binv E. binv E. binv E. binv E. binv E. destruct a6.
    apply emap_param_ok_inv in Ea6. destruct Ea6 as [Hfit _].
    apply forallb_forall. intros p Hp. apply param_enforced.
    + exact (proj1 (forallb_forall _ _) Hpar p Hp).
    + exact (existsb_false_In _ _ p K6 Hp).
    + exact (proj1 (Forall_forall _ _) Hfit p Hp).
Qed.

Lemma opt_api_wf (r : rr) : api_opt_rr r = opt_rr_wf r.
Proof. reflexivity. Qed.
Lemma apl_api_wf (r : rr) : api_apl_rr r = apl_rr_wf r.
Proof. reflexivity. Qed.

Theorem rr_enforced (r : rr) (s s' : est) :
  api_rr r = true -> known_rr r = false -> enc_rr r s = EOk tt s' -> rr_wf r = true.
Proof.
  unfold api_rr, rr_wf, known_rr. intros Ha Hk E.
  apply orb_false_iff in Hk. destruct Hk as [Hk K7]. apply orb_false_iff in Hk. destruct Hk as [K5 K6].
  destruct (lookup (r_type r) enc_dispatch) as [[ec f|[| | |]]|] eqn:El; try discriminate.
  - apply (plain_enforced r s s'); assumption.
  - rewrite <- opt_api_wf. exact Ha.
  - rewrite <- apl_api_wf. exact Ha.
  - apply (svcb_enforced r s s'); assumption.
  - apply (svcb_enforced r s s'); assumption.
Qed.

Lemma section_enforced (l : list rr) (s s' : est) :
  forallb api_rr l = true -> existsb known_rr l = false -> emap enc_rr l s = EOk tt s' ->
  forallb rr_wf l = true.
Proof.
  intros Ha Hk E. apply emap_ok_inv in E. apply forallb_forall. intros r Hr.
  destruct (proj1 (Forall_forall _ _) E r Hr) as (s1 & s2 & E1).
  apply (rr_enforced r s1 s2).
  - exact (proj1 (forallb_forall _ _) Ha r Hr).
  - exact (existsb_false_In _ _ r Hk Hr).
  - exact E1.
Qed.

(* ================================================================================================ *)
(* the message                                                                                       *)
(* ================================================================================================ *)
Theorem ok_means_wf (m : dns) (b : bytes) :
  api_ok m = true -> known_class m = false -> enc_Dns m = Ok b -> dns_wf m = true.
Proof.
  intros Ha Hk E. destruct (enc_Dns_header m b E) as (L1 & L2 & L3 & L4 & _).
  unfold enc_Dns, erun in E. destruct (enc_dns m e_init) as [[] stF|e|x|] eqn:E0; try discriminate. clear E.
  rewrite enc_dns_unfold in E0.
  destruct (lenN (m_qd m) <? POW16); [|discriminate]. destruct (lenN (m_an m) <? POW16); [|discriminate].
  destruct (lenN (m_ns m) <? POW16); [|discriminate]. destruct (lenN (m_ar m) <? POW16); [|discriminate].
  unfold enc_dns_body in E0. binv E0. binv E0. binv E0. binv E0. destruct a0, a1, a2.
  unfold api_ok in Ha. apply andb_true_iff in Ha. destruct Ha as [Ha Har]. apply andb_true_iff in Ha. destruct Ha as [Ha Hns].
  apply andb_true_iff in Ha. destruct Ha as [Ha Han]. apply andb_true_iff in Ha. destruct Ha as [Ha Hqd].
  apply andb_true_iff in Ha. destruct Ha as [Hid Hfl].
  unfold known_class in Hk. apply orb_false_iff in Hk. destruct Hk as [Hk Kar]. apply orb_false_iff in Hk. destruct Hk as [Hk Kns].
  apply orb_false_iff in Hk. destruct Hk as [K4 Kan].
  unfold dns_wf, dns_wf_gen.
  rewrite (section_enforced _ _ _ Han Kan E0a0), (section_enforced _ _ _ Hns Kns E0a1), (section_enforced _ _ _ Har Kar E0a2).
  change (forallb question_wf (m_qd m)) with (forallb api_question (m_qd m)). rewrite Hqd, Hid.
  assert (flags_wf (m_flags m) = true) as ->.
  { unfold flags_wf. unfold api_flags in Hfl. rewrite Hfl. unfold kf4 in K4. cbn [andb]. lia. }
  cbn [andb].
  assert ((lenN (m_qd m) <=? 65535) = true) as -> by lia. assert ((lenN (m_an m) <=? 65535) = true) as -> by lia.
  assert ((lenN (m_ns m) <=? 65535) = true) as -> by lia. assert ((lenN (m_ar m) <=? 65535) = true) as -> by lia.
  reflexivity.
Qed.

Theorem ok_means_decodable (m : dns) (b : bytes) :
  api_ok m = true -> known_class m = false -> enc_Dns m = Ok b ->
  (exists m' s, dec_Dns b = DOk m' s /\ dns_eqv m' m) /\
  (exists m', spec_Dns b = Some m' /\ dns_eqv m' m).
Proof.
  intros Ha Hk E. pose proof (ok_means_wf m b Ha Hk E) as Hwf.
  split; [exact (C05_roundtrip_proof m b Hwf E)|exact (reference_reads_back m b Hwf E)].
Qed.

(* the contrapositive reading of the clause: a typed value outside the known classes that is NOT
   well-formed (i.e. cannot be represented: an oversized string, section, ECH list ...) is never Ok *)
Theorem unrepresentable_is_not_ok (m : dns) :
  api_ok m = true -> known_class m = false -> dns_wf m = false -> forall b, enc_Dns m <> Ok b.
Proof. intros Ha Hk Hn b E. rewrite (ok_means_wf m b Ha Hk E) in Hn. discriminate. Qed.

(* ================================================================================================ *)
(* the exclusions are necessary: one witness per known class                                         *)
(* ================================================================================================ *)
Definition w_flags (rc : N) : flags :=
  {| f_qr := true; f_opcode := 0; f_aa := false; f_tc := false; f_rd := false;
     f_ra := false; f_ad := false; f_cd := false; f_rcode := rc |}.
Definition w_msg (rc : N) (an : list rr) : dns :=
  {| m_id := 1; m_flags := w_flags rc; m_qd := []; m_an := an; m_ns := []; m_ar := [] |}.
Definition w_svcb (d : rdata) : rr :=
  {| r_type := 64; r_name := [[97]]; r_class := 1; r_ttl := 0; r_data := d |}.

(* KF4: RCode BADVERS (16) *)
Definition w_kf4 : dns := w_msg 16 [].
(* KF5: GPOS with an empty longitude *)
Definition w_kf5 : dns :=
  w_msg 0 [{| r_type := 27; r_name := [[97]]; r_class := 1; r_ttl := 0;
              r_data := RFields [VBytes []; VBytes [49]; VBytes [50]] |}].
(* KF6: PRIVATE { number: 3, wire_data: [1, 187] } (3 is the key of `port`) *)
Definition w_kf6 : dns := w_msg 0 [w_svcb (RSvcb 1 [] [PPrivate 3 [1; 187]])].
(* KF6 again: a one-octet value under key 3 is not a port at all *)
Definition w_kf6b : dns := w_msg 0 [w_svcb (RSvcb 1 [] [PPrivate 3 [1]])].
(* KF7: alias form with a port parameter *)
Definition w_kf7 : dns := w_msg 0 [w_svcb (RSvcb 0 [[98]] [PPort 443])].

Lemma known_refuted_kf4 :
  api_ok w_kf4 = true /\ known_class w_kf4 = true /\
  enc_Dns w_kf4 = Ok [0; 1; 128; 16; 0; 0; 0; 0; 0; 0; 0; 0] /\
  (exists s, dec_Dns [0; 1; 128; 16; 0; 0; 0; 0; 0; 0; 0; 0] =
             DOk {| m_id := 1;
                    m_flags := {| f_qr := true; f_opcode := 0; f_aa := false; f_tc := false; f_rd := false;
                                  f_ra := false; f_ad := false; f_cd := true; f_rcode := 0 |};
                    m_qd := []; m_an := []; m_ns := []; m_ar := [] |} s) /\
  ~ dns_eqv {| m_id := 1;
               m_flags := {| f_qr := true; f_opcode := 0; f_aa := false; f_tc := false; f_rd := false;
                             f_ra := false; f_ad := false; f_cd := true; f_rcode := 0 |};
               m_qd := []; m_an := []; m_ns := []; m_ar := [] |} w_kf4.
Proof.
  split; [vm_compute; reflexivity|]. split; [vm_compute; reflexivity|]. split; [vm_compute; reflexivity|].
  split; [eexists; vm_compute; reflexivity|].
  intros (_ & H & _). discriminate H.
Qed.

Lemma known_refuted_kf5 :
  api_ok w_kf5 = true /\ known_class w_kf5 = true /\
  enc_Dns w_kf5 = Ok [0; 1; 128; 0; 0; 0; 0; 1; 0; 0; 0; 0; 1; 97; 0; 0; 27; 0; 1; 0;
                      0; 0; 0; 0; 5; 0; 1; 49; 1; 50] /\
  dec_Dns [0; 1; 128; 0; 0; 0; 0; 1; 0; 0; 0; 0; 1; 97; 0; 0; 27; 0; 1; 0;
           0; 0; 0; 0; 5; 0; 1; 49; 1; 50] = DErr (EGPOS, []) 31.
Proof.
  split; [vm_compute; reflexivity|]. split; [vm_compute; reflexivity|]. split; vm_compute; reflexivity.
Qed.

Lemma known_refuted_kf6 :
  api_ok w_kf6 = true /\ known_class w_kf6 = true /\
  enc_Dns w_kf6 = Ok [0; 1; 128; 0; 0; 0; 0; 1; 0; 0; 0; 0; 1; 97; 0; 0; 64; 0; 1; 0;
                      0; 0; 0; 0; 9; 0; 1; 0; 0; 3; 0; 2; 1; 187] /\
  (exists s, dec_Dns [0; 1; 128; 0; 0; 0; 0; 1; 0; 0; 0; 0; 1; 97; 0; 0; 64; 0; 1; 0;
                      0; 0; 0; 0; 9; 0; 1; 0; 0; 3; 0; 2; 1; 187] =
             DOk (w_msg 0 [w_svcb (RSvcb 1 [] [PPort 443])]) s) /\
  ~ dns_eqv (w_msg 0 [w_svcb (RSvcb 1 [] [PPort 443])]) w_kf6.
Proof.
  split; [vm_compute; reflexivity|]. split; [vm_compute; reflexivity|]. split; [vm_compute; reflexivity|].
  split; [eexists; vm_compute; reflexivity|].
  intros (_ & _ & _ & H & _). cbn [w_kf6 w_msg m_an] in H.
  inversion H as [|x y l l' Hr _]; subst. destruct Hr as (_ & _ & _ & _ & Hd).
  cbn [w_svcb r_data rdata_eqv] in Hd. destruct Hd as (_ & _ & Hd). discriminate Hd.
Qed.

Lemma known_refuted_kf6b :
  api_ok w_kf6b = true /\ known_class w_kf6b = true /\
  enc_Dns w_kf6b = Ok [0; 1; 128; 0; 0; 0; 0; 1; 0; 0; 0; 0; 1; 97; 0; 0; 64; 0; 1; 0;
                       0; 0; 0; 0; 8; 0; 1; 0; 0; 3; 0; 1; 1] /\
  dec_Dns [0; 1; 128; 0; 0; 0; 0; 1; 0; 0; 0; 0; 1; 97; 0; 0; 64; 0; 1; 0;
           0; 0; 0; 0; 8; 0; 1; 0; 0; 3; 0; 1; 1] = DErr (ENotEnoughBytes, [1; 2]) 41.
Proof.
  split; [vm_compute; reflexivity|]. split; [vm_compute; reflexivity|]. split; vm_compute; reflexivity.
Qed.

Lemma known_refuted_kf7 :
  api_ok w_kf7 = true /\ known_class w_kf7 = true /\
  enc_Dns w_kf7 = Ok [0; 1; 128; 0; 0; 0; 0; 1; 0; 0; 0; 0; 1; 97; 0; 0; 64; 0; 1; 0;
                      0; 0; 0; 0; 5; 0; 0; 1; 98; 0] /\
  (exists s, dec_Dns [0; 1; 128; 0; 0; 0; 0; 1; 0; 0; 0; 0; 1; 97; 0; 0; 64; 0; 1; 0;
                      0; 0; 0; 0; 5; 0; 0; 1; 98; 0] =
             DOk (w_msg 0 [w_svcb (RSvcb 0 [[98]] [])]) s) /\
  ~ dns_eqv (w_msg 0 [w_svcb (RSvcb 0 [[98]] [])]) w_kf7.
Proof.
  split; [vm_compute; reflexivity|]. split; [vm_compute; reflexivity|]. split; [vm_compute; reflexivity|].
  split; [eexists; vm_compute; reflexivity|].
  intros (_ & _ & _ & H & _). cbn [w_kf7 w_msg m_an] in H.
  inversion H as [|x y l l' Hr _]; subst. destruct Hr as (_ & _ & _ & _ & Hd).
  cbn [w_svcb r_data rdata_eqv] in Hd. destruct Hd as (_ & _ & Hd). discriminate Hd.
Qed.

(* each class ALONE triggers: the other three predicates are false on the witness *)
Lemma known_witnesses_separate :
  (kf4 w_kf4 = true /\ existsb known_rr (m_an w_kf4) = false) /\
  (kf4 w_kf5 = false /\ forallb (fun r => kf5_rr r && negb (kf6_rr r) && negb (kf7_rr r)) (m_an w_kf5) = true) /\
  (kf4 w_kf6 = false /\ forallb (fun r => negb (kf5_rr r) && kf6_rr r && negb (kf7_rr r)) (m_an w_kf6) = true) /\
  (kf4 w_kf7 = false /\ forallb (fun r => negb (kf5_rr r) && negb (kf6_rr r) && kf7_rr r) (m_an w_kf7) = true).
Proof. vm_compute. repeat split. Qed.

(* ---- the theorem is not vacuous on either side ---- *)
(* a typed value outside the known classes with a 256-octet string (HINFO cpu): NOT well-formed, and the
   encoder says so *)
Definition w_long : dns :=
  w_msg 0 [{| r_type := 13; r_name := [[97]]; r_class := 1; r_ttl := 0;
              r_data := RFields [VBytes (zeros (N.to_nat 256)); VBytes [98]] |}].
Lemma oversize_typed_is_error :
  api_ok w_long = true /\ known_class w_long = false /\ dns_wf w_long = false /\
  enc_Dns w_long = Err (XString, [256]).
Proof.
  split; [vm_compute; reflexivity|]. split; [vm_compute; reflexivity|]. split; vm_compute; reflexivity.
Qed.

(* a typed value outside the known classes that encodes: GPOS with three non-empty strings, a service-form
   SVCB record with a port and a PRIVATE key 65280, RCode Refused *)
Definition w_good : dns :=
  w_msg 5 [{| r_type := 27; r_name := [[97]]; r_class := 1; r_ttl := 0;
              r_data := RFields [VBytes [48]; VBytes [49]; VBytes [50]] |};
           w_svcb (RSvcb 1 [] [PPort 443; PPrivate 65280 [1; 2; 3]])].
Lemma typed_good_encodes :
  api_ok w_good = true /\ known_class w_good = false /\ exists b, enc_Dns w_good = Ok b.
Proof.
  split; [vm_compute; reflexivity|]. split; [vm_compute; reflexivity|]. eexists. vm_compute. reflexivity.
Qed.
