(* C16, part 3: every parameter kind is read back from its registered wire format, one
   parameter with its header, and the whole SvcParams list. *)
From Coq Require Import Sorted Permutation.
From DNS Require Import Model.Dec Model.Enc Proofs.DecBase Proofs.SvcbSet Proofs.SvcbEnc Proofs.SvcbDec.
Require Import ZArith ZifyBool ZifyN ZifyNat.
Local Open Scope N_scope.
Ltac Zify.zify_post_hook ::= Z.div_mod_to_equations.

(* what the decoder returns for an emitted parameter: the mandatory list comes back sorted *)
Definition norm (p : svcparam) : svcparam :=
  match p with PMandatory keys => PMandatory (sort_keys keys) | _ => p end.

Lemma norm_key (p : svcparam) : param_key (norm p) = param_key p.
Proof. destruct p; reflexivity. Qed.
Lemma norm_idem (p : svcparam) : norm (norm p) = norm p.
Proof. destruct p; cbn [norm]; try reflexivity. rewrite sort_keys_idem. reflexivity. Qed.
Lemma norm_value_bytes (p : svcparam) : value_bytes (norm p) = value_bytes p.
Proof. destruct p; cbn [norm value_bytes]; try reflexivity. rewrite sort_keys_idem. reflexivity. Qed.

(* the values the Rust types can hold, within the limits of the formats *)
Definition param_valid (p : svcparam) : Prop :=
  match p with
  | PMandatory keys => Forall (fun k : N => k < 65536) keys
  | PAlpn ids => Forall (fun b : bytes => utf8_valid b = true /\ lenN b <= 255) ids
  | PNoDefaultAlpn => True
  | PPort port => port < 65536
  | PIpv4Hint h => Forall (fun a : N => a < 4294967296) h
  | PEch cl => lenN cl <= 65535
  | PIpv6Hint h => Forall (fun a : bytes => lenN a = 16 /\ bytes_ok a) h
  | PPrivate n _ => 7 <= n /\ n <= 65534
  | PKey65535 => True
  end.

Lemma param_valid_key (p : svcparam) : param_valid p -> param_key p < 65536.
Proof. destruct p; cbn [param_valid param_key]; intros H; lia. Qed.

(* ---- the dispatch on the key, one equation per kind ---- *)
Lemma rsp_0 : rr_service_parameter 0 = (fuel <- loop_fuel ;; l <- many fuel u16 [] ;; ret (PMandatory l)).
Proof. reflexivity. Qed.
Lemma rsp_1 : rr_service_parameter 1 = (fuel <- loop_fuel ;; l <- many fuel string_ [] ;; ret (PAlpn l)).
Proof. reflexivity. Qed.
Lemma rsp_2 : rr_service_parameter 2 = ret PNoDefaultAlpn.
Proof. reflexivity. Qed.
Lemma rsp_3 : rr_service_parameter 3 = (p <- u16 ;; ret (PPort p)).
Proof. reflexivity. Qed.
Lemma rsp_4 : rr_service_parameter 4 = (fuel <- loop_fuel ;; l <- many fuel ipv4_addr [] ;; ret (PIpv4Hint l)).
Proof. reflexivity. Qed.
Lemma rsp_5 : rr_service_parameter 5 =
  (length <- u16 ;; cl <- vec ;;
   if negb (lenN cl =? length) then fail (EECHLengthMismatch, [length; lenN cl]) else ret (PEch cl)).
Proof. reflexivity. Qed.
Lemma rsp_6 : rr_service_parameter 6 = (fuel <- loop_fuel ;; l <- many fuel ipv6_addr [] ;; ret (PIpv6Hint l)).
Proof. reflexivity. Qed.
Lemma rsp_65535 : rr_service_parameter 65535 = ret PKey65535.
Proof. reflexivity. Qed.
Lemma rsp_private (n : N) : 7 <= n -> n <> 65535 ->
  rr_service_parameter n = (d <- vec ;; ret (PPrivate n d)).
Proof.
  intros H1 H2. unfold rr_service_parameter.
  destruct (n =? 0) eqn:E0; [lia|]. destruct (n =? 1) eqn:E1; [lia|].
  destruct (n =? 2) eqn:E2; [lia|]. destruct (n =? 3) eqn:E3; [lia|].
  destruct (n =? 4) eqn:E4; [lia|]. destruct (n =? 5) eqn:E5; [lia|].
  destruct (n =? 6) eqn:E6; [lia|]. destruct (n =? 65535) eqn:E7; [lia|]. reflexivity.
Qed.

(* ---- 3a. the value of every kind ---- *)
Lemma param_roundtrip (p : svcparam) : param_valid p ->
  reads (rr_service_parameter (param_key p)) (value_bytes p) [] (norm p).
Proof.
  destruct p as [keys|ids| |port|h|cl|h|n d| ]; cbn [param_valid param_key value_bytes norm]; intros H.
  - rewrite rsp_0.
    apply (reads_loop u16 u16b (fun k : N => k < 65536) PMandatory (sort_keys keys)).
    + intros x r Hx. apply reads_u16. exact Hx.
    + intros x _. discriminate.
    + apply sort_keys_Forall. exact H.
  - rewrite rsp_1.
    apply (reads_loop string_ (fun b : bytes => lenN b :: b)
             (fun b : bytes => utf8_valid b = true /\ lenN b <= 255) PAlpn ids).
    + intros x r [Hu Hl]. apply reads_string; assumption.
    + intros x _. discriminate.
    + exact H.
  - rewrite rsp_2. apply reads_ret.
  - rewrite rsp_3. apply (reads_map u16 PPort). apply reads_u16. exact H.
  - rewrite rsp_4.
    apply (reads_loop ipv4_addr u32b (fun a : N => a < 4294967296) PIpv4Hint h).
    + intros x r Hx. apply reads_u32. exact Hx.
    + intros x _. discriminate.
    + exact H.
  - rewrite rsp_5. eapply reads_bind; [apply reads_u16; lia|].
    rewrite <- (app_nil_r cl) at 1. eapply (reads_bind vec _ cl [] []); [exact (reads_vec cl)|].
    rewrite N.eqb_refl. cbn [negb]. apply reads_ret.
  - rewrite rsp_6.
    replace (concat h) with (concat (map (fun a : bytes => a) h)) by (rewrite map_id; reflexivity).
    apply (reads_loop ipv6_addr (fun a : bytes => a) (fun a : bytes => lenN a = 16 /\ bytes_ok a) PIpv6Hint h).
    + intros x r [Hl Hb]. apply reads_ipv6; assumption.
    + intros x [Hl _] ->. discriminate.
    + exact H.
  - rewrite rsp_private by lia. apply (reads_map vec (PPrivate n)). apply reads_vec.
  - rewrite rsp_65535. apply reads_ret.
Qed.

(* ---- 3b. one parameter with its header ---- *)
Definition param_ok (p : svcparam) : Prop := param_valid p /\ lenN (value_bytes p) <= 65535.

Definition param_reader : DM svcparam :=
  key <- u16 ;; len <- u16 ;; with_sub len (rr_service_parameter key).

Lemma param_wire_roundtrip (p : svcparam) (r : bytes) : param_ok p ->
  reads param_reader (param_wire p) r (norm p).
Proof.
  intros [Hv Hl]. unfold param_reader, param_wire.
  eapply reads_bind; [apply reads_u16; apply param_valid_key; exact Hv|].
  eapply reads_bind; [apply reads_u16; lia|].
  apply reads_with_sub. apply param_roundtrip. exact Hv.
Qed.

(* ---- 3c. the list ---- *)
Lemma svc_params_S (f : nat) (acc : list svcparam) :
  svc_params (S f) acc =
  (fin <- is_finished ;;
   if fin then ret acc
   else key <- u16 ;; len <- u16 ;;
        p <- with_sub len (rr_service_parameter key) ;;
        let '(acc', inserted) := set_insert p acc in
        if inserted then svc_params f acc' else fail (ESVCBDuplicateKey, [key])).
Proof. reflexivity. Qed.

Lemma param_wire_nonempty (p : svcparam) (r : bytes) : param_wire p ++ r <> [].
Proof. unfold param_wire, u16b. cbn [app]. discriminate. Qed.

(* one iteration of the loop on an emitted parameter *)
Lemma svc_params_step (f : nat) (acc : list svcparam) (p : svcparam) (r : bytes) (s : dst) :
  param_ok p -> wst s -> d_rest s = param_wire p ++ r ->
  exists c : N,
    svc_params (S f) acc s =
    (let '(acc', inserted) := set_insert (norm p) acc in
     if inserted then svc_params f acc' else fail (ESVCBDuplicateKey, [param_key p]))
      (mkst r (d_off s + lenN (param_wire p)) (d_len s) c).
Proof.
  intros [Hv Hl] W Hr. rewrite svc_params_S.
  assert (d_rest s <> []) as Hne by (rewrite Hr; apply param_wire_nonempty).
  rewrite (bind_ok _ _ _ _ _ (is_finished_more s W Hne)).
  unfold param_wire in Hr. rewrite <- !app_assoc in Hr.
  destruct (reads_u16 (param_key p) _ (param_valid_key p Hv) s W Hr) as [c1 E1].
  rewrite (bind_ok _ _ _ _ _ E1).
  pose proof (reads_after s _ _ c1 W Hr) as W1.
  destruct (reads_u16 (lenN (value_bytes p)) (value_bytes p ++ r) ltac:(lia) _ W1 eq_refl) as [c2 E2].
  rewrite (bind_ok _ _ _ _ _ E2).
  pose proof (reads_after _ _ _ c2 W1 eq_refl) as W2.
  destruct (reads_with_sub _ (value_bytes p) r (norm p) (param_roundtrip p Hv) _ W2 eq_refl) as [c3 E3].
  rewrite (bind_ok _ _ _ _ _ E3).
  exists c3. unfold mkst. cbn [d_off d_len]. unfold param_wire. rewrite !lenN_app.
  replace (d_off s + lenN (u16b (param_key p)) + lenN (u16b (lenN (value_bytes p))) + lenN (value_bytes p))
    with (d_off s + (lenN (u16b (param_key p)) + (lenN (u16b (lenN (value_bytes p))) + lenN (value_bytes p)))) by lia.
  reflexivity.
Qed.

Lemma keys_sorted_map_norm (ps : list svcparam) : keys_sorted ps -> keys_sorted (map norm ps).
Proof.
  induction 1 as [|q r Hr IH Hq]; cbn [map]; constructor; [exact IH|].
  rewrite Forall_forall in *. intros x Hx. apply in_map_iff in Hx. destruct Hx as (y & <- & Hy).
  rewrite !norm_key. apply Hq. exact Hy.
Qed.

(* the loop consumes a strictly sorted emitted prefix, appending the values to the set *)
Lemma svc_params_prefix (ps : list svcparam) : forall (fuel : nat) (acc : list svcparam) (r : bytes) (s : dst),
  Forall param_ok ps -> keys_sorted ps ->
  (forall q p, In q acc -> In p ps -> param_key q < param_key p) ->
  wst s -> d_rest s = concat (map param_wire ps) ++ r ->
  exists c : N,
    svc_params (length ps + fuel) acc s =
    svc_params fuel (acc ++ map norm ps)
      (mkst r (d_off s + lenN (concat (map param_wire ps))) (d_len s) c).
Proof.
  induction ps as [|p ps IH]; intros fuel acc r s Hok Hs Hacc W Hr.
  - exists (d_cost s). cbn [length Nat.add map concat]. rewrite app_nil_r. f_equal.
    destruct s as [rest off len cost]. cbn [d_rest d_off d_len d_cost map concat app] in *. subst rest.
    unfold mkst. f_equal. change (lenN (@nil N)) with 0. lia.
  - inversion Hok as [|? ? Hp Hps]; subst.
    destruct (keys_sorted_cons_inv _ _ Hs) as [Hs' Hlt]. rewrite Forall_forall in Hlt.
    cbn [length Nat.add map concat] in *. rewrite <- app_assoc in Hr.
    destruct (svc_params_step (length ps + fuel) acc p _ s Hp W Hr) as [c1 E1]. rewrite E1.
    rewrite set_insert_last.
    2:{ intros q Hq. rewrite norm_key. apply Hacc; [exact Hq|left; reflexivity]. }
    pose proof (reads_after s _ _ c1 W Hr) as W1.
    assert (forall q x : svcparam, In q (acc ++ [norm p]) -> In x ps -> param_key q < param_key x) as Hacc'.
    { intros q x Hq Hx. apply in_app_or in Hq. destruct Hq as [Hq|[<-|[]]].
      - apply Hacc; [exact Hq|right; exact Hx].
      - rewrite norm_key. apply Hlt. exact Hx. }
    destruct (IH fuel (acc ++ [norm p]) r _ Hps Hs' Hacc' W1 eq_refl) as [c2 E2].
    rewrite E2. exists c2. rewrite <- app_assoc. cbn [app]. unfold mkst. cbn [d_off d_len].
    rewrite lenN_app.
    replace (d_off s + lenN (param_wire p) + lenN (concat (map param_wire ps)))
      with (d_off s + (lenN (param_wire p) + lenN (concat (map param_wire ps)))) by lia.
    reflexivity.
Qed.

Lemma svc_params_roundtrip (ps : list svcparam) (fuel : nat) (s : dst) :
  Forall param_ok ps -> keys_sorted ps -> wst s -> d_rest s = concat (map param_wire ps) ->
  (length ps < fuel)%nat ->
  exists c : N, svc_params fuel [] s = DOk (map norm ps) (mkst [] (d_len s) (d_len s) c).
Proof.
  intros Hok Hs W Hr Hf.
  replace fuel with (length ps + S (fuel - length ps - 1))%nat by lia.
  destruct (svc_params_prefix ps (S (fuel - length ps - 1)) [] [] s Hok Hs) as [c E].
  - intros q p [].
  - exact W.
  - rewrite app_nil_r. exact Hr.
  - rewrite E. cbn [app]. rewrite svc_params_S.
    assert (wst (mkst [] (d_off s + lenN (concat (map param_wire ps))) (d_len s) c)) as W1.
    { apply (reads_after s _ [] c W). rewrite app_nil_r. exact Hr. }
    rewrite (bind_ok _ _ _ _ _ (is_finished_done _ W1 eq_refl)).
    exists c. unfold ret. f_equal. unfold mkst. f_equal.
    destruct W as [W0 _]. rewrite Hr in W0. lia.
Qed.

Lemma params_count_le (ps : list svcparam) : (length ps <= length (concat (map param_wire ps)))%nat.
Proof.
  apply concat_length_ge. intros p _ H. apply (param_wire_nonempty p []). rewrite app_nil_r. exact H.
Qed.

(* with the fuel the record decoder computes: one more than the octets that remain *)
Lemma svc_params_roundtrip_fuel (ps : list svcparam) (s : dst) :
  Forall param_ok ps -> keys_sorted ps -> wst s -> d_rest s = concat (map param_wire ps) ->
  exists c : N,
    (fuel <- loop_fuel ;; svc_params fuel []) s = DOk (map norm ps) (mkst [] (d_len s) (d_len s) c).
Proof.
  intros Hok Hs W Hr. rewrite (bind_ok _ _ _ _ _ (loop_fuel_eq s W)).
  apply svc_params_roundtrip; try assumption.
  rewrite Hr. pose proof (params_count_le ps). lia.
Qed.

(* an emitted value that fits is valid-or-not independently; what emission guarantees *)
Lemma param_fits_ok (p : svcparam) : param_valid p -> param_fits p -> param_ok p.
Proof. intros Hv [_ Hl]. split; assumption. Qed.

(* ---- KF6: a PRIVATE value carrying a registered number does not round trip ---- *)
Lemma private_registered_counterexample :
  let p := PPrivate 3 [1; 187] in
  param_wire p = [0; 3; 0; 2; 1; 187] /\
  param_reader (win (param_wire p) 0) = DOk (PPort 443) (mkst [] 6 6 8) /\
  PPort 443 <> norm p.
Proof.
  cbv zeta. split; [vm_compute; reflexivity|]. split; [vm_compute; reflexivity|discriminate].
Qed.
