(* C09 — message framing: each section holds exactly the announced number of entries and nothing
   follows the last record. *)
From Coq Require Import ZifyBool ZifyN ZifyNat.
From DNS Require Import Model.Dec Proofs.DecBase Proofs.DecName Proofs.DecNameSpec Proofs.DecSafe Proofs.DecTotal
  Proofs.Frame.
Local Open Scope N_scope.

Lemma bind_assoc {A B C} (m : DM A) (f : A -> DM B) (g : B -> DM C) (s : dst) :
  bind (bind m f) g s = bind m (fun a => bind (f a) g) s.
Proof. unfold bind. destruct (m s) as [a s1|e c|x|]; reflexivity. Qed.
Lemma bind_cong {A B} (m : DM A) (f g : A -> DM B) (s : dst) :
  (forall (a : A) (s' : dst), f a s' = g a s') -> bind m f s = bind m g s.
Proof. intro H. unfold bind. destruct (m s) as [a s1|e c|x|]; [apply H|reflexivity|reflexivity|reflexivity]. Qed.

(* the header and the four section loops, without the final is_finished test *)
Definition dns_body (main : bytes) : DM dns :=
  id <- u16 ;; fl <- flags_ ;;
  qc <- u16 ;; ac <- u16 ;; nc <- u16 ;; rc <- u16 ;;
  qd <- repeat_dm (N.to_nat qc) (question_ main) ;;
  an <- repeat_dm (N.to_nat ac) (rr_ main) ;;
  ns <- repeat_dm (N.to_nat nc) (rr_ main) ;;
  ar <- repeat_dm (N.to_nat rc) (rr_ main) ;;
  ret {| m_id := id; m_flags := fl; m_qd := qd; m_an := an; m_ns := ns; m_ar := ar |}.

Definition dns_tail (m : dns) : DM dns :=
  fin <- is_finished ;; if fin then ret m else fun s' => DErr (ERemainingBytes, [d_off s']) (d_cost s').

Lemma dns_split (main : bytes) (s : dst) : dns_ main s =
  if negb (d_off s =? 0) then DErr (EOffset, [d_off s]) (d_cost s)
  else if cmp_apply OP_dns_min (d_len s) DNS_MIN_LENGTH then DErr (ENotEnoughBytes, [d_len s; DNS_MIN_LENGTH]) (d_cost s)
  else if cmp_apply OP_dns_max (d_len s) MAXIMUM_DNS_PACKET_SIZE then DErr (EDnsPacketTooBig, [d_len s]) (d_cost s)
  else (m <- dns_body main ;; dns_tail m) s.
Proof.
  unfold dns_. destruct (negb (d_off s =? 0)); [reflexivity|]. cbv zeta.
  destruct (cmp_apply OP_dns_min (d_len s) DNS_MIN_LENGTH); [reflexivity|].
  destruct (cmp_apply OP_dns_max (d_len s) MAXIMUM_DNS_PACKET_SIZE); [reflexivity|].
  unfold dns_body.
  do 10 (rewrite bind_assoc; apply bind_cong; intros ? ?).
  reflexivity.
Qed.

Lemma flags_inv (s : dst) (fl : flags) (s' : dst) : flags_ s = DOk fl s' -> s' = adv 2 s /\ d_off s + 2 <= d_len s.
Proof.
  unfold flags_. intro E. apply bind_inv in E. destruct E as (b0 & s1 & E1 & E).
  apply u8_inv in E1. destruct E1 as (_ & -> & H1). cbv zeta in E.
  destruct (negb (in_table Opcode_table (fbit DEC_FLAG_opcode b0 0))); [discriminate|].
  apply bind_inv in E. destruct E as (b1 & s2 & E2 & E).
  apply u8_inv in E2. destruct E2 as (_ & -> & H2). cbv zeta in E.
  destruct (negb (fbit DEC_FLAG_z b0 b1 =? 0)); [discriminate|].
  destruct (negb (in_table RCode_table (fbit DEC_FLAG_rcode b0 b1))); [discriminate|].
  apply ret_inv in E. destruct E as [_ ->]. rewrite adv_adv. cbn [adv d_off d_len] in H2.
  split; [reflexivity|lia].
Qed.

Lemma repeat_dm_length {A} (m : DM A) : forall (n : nat) (s : dst) (l : list A) (s' : dst),
  repeat_dm n m s = DOk l s' -> length l = n.
Proof.
  induction n as [|n IH]; intros s l s' E; cbn [repeat_dm] in E.
  - apply ret_inv in E. destruct E as [-> _]. reflexivity.
  - apply bind_inv in E. destruct E as (x & s1 & _ & E). apply bind_inv in E. destruct E as (r & s2 & E2 & E).
    apply ret_inv in E. destruct E as [-> _]. cbn [length]. f_equal. eapply IH. exact E2.
Qed.
Lemma repeat_dm_lenN {A} (m : DM A) (v : N) (s : dst) (l : list A) (s' : dst) :
  repeat_dm (N.to_nat v) m s = DOk l s' -> lenN l = v.
Proof. intro E. apply repeat_dm_length in E. unfold lenN. lia. Qed.

(* ---- the sections ---- *)
Theorem dns_body_exact (main : bytes) (s : dst) (m : dns) (s' : dst) :
  bytes_ok main -> lenN main < WFMAX -> dst_wf s -> dns_body main s = DOk m s' ->
  exists (s7 s8 s9 : dst),
    repeat_dm (N.to_nat (be (takeN 2 (dropN 4 (d_rest s))))) (question_ main) (adv 12 s) = DOk (m_qd m) s7 /\
    repeat_dm (N.to_nat (be (takeN 2 (dropN 6 (d_rest s))))) (rr_ main) s7 = DOk (m_an m) s8 /\
    repeat_dm (N.to_nat (be (takeN 2 (dropN 8 (d_rest s))))) (rr_ main) s8 = DOk (m_ns m) s9 /\
    repeat_dm (N.to_nat (be (takeN 2 (dropN 10 (d_rest s))))) (rr_ main) s9 = DOk (m_ar m) s' /\
    lenN (m_qd m) = be (takeN 2 (dropN 4 (d_rest s))) /\ lenN (m_an m) = be (takeN 2 (dropN 6 (d_rest s))) /\
    lenN (m_ns m) = be (takeN 2 (dropN 8 (d_rest s))) /\ lenN (m_ar m) = be (takeN 2 (dropN 10 (d_rest s))) /\
    dst_wf s' /\ d_len s' = d_len s.
Proof.
  intros Hb Hm W E. unfold dns_body in E.
  apply bind_inv in E. destruct E as (id & s1 & E1 & E). destruct (uint_inv_wf _ _ _ _ W E1) as (_ & -> & W1).
  apply bind_inv in E. destruct E as (fl & s2 & E2 & E). destruct (flags_inv _ _ _ E2) as (-> & B2).
  assert (W2 : dst_wf (adv 2 (adv 2 s))) by (apply adv_wf; assumption).
  rewrite adv_adv in *. change (2 + 2) with 4 in *.
  apply bind_inv in E. destruct E as (qc & s3 & E3 & E). destruct (uint_inv_wf _ _ _ _ W2 E3) as (Q & -> & W3).
  rewrite adv_adv in *. change (4 + 2) with 6 in *.
  apply bind_inv in E. destruct E as (ac & s4 & E4 & E). destruct (uint_inv_wf _ _ _ _ W3 E4) as (A & -> & W4).
  rewrite adv_adv in *. change (6 + 2) with 8 in *.
  apply bind_inv in E. destruct E as (nc & s5 & E5 & E). destruct (uint_inv_wf _ _ _ _ W4 E5) as (Nc & -> & W5).
  rewrite adv_adv in *. change (8 + 2) with 10 in *.
  apply bind_inv in E. destruct E as (rc & s6 & E6 & E). destruct (uint_inv_wf _ _ _ _ W5 E6) as (R & -> & W6).
  rewrite adv_adv in *. change (10 + 2) with 12 in *.
  cbn [adv d_rest] in Q, A, Nc, R.
  apply bind_inv in E. destruct E as (qd & s7 & E7 & E).
  apply bind_inv in E. destruct E as (an & s8 & E8 & E).
  apply bind_inv in E. destruct E as (ns & s9 & E9 & E).
  apply bind_inv in E. destruct E as (ar & s10 & E10 & E).
  apply ret_inv in E. destruct E as [-> ->]. cbn [m_qd m_an m_ns m_ar].
  pose proof (safeP_len_stable _ _ _ (safe0_repeat _ (N.to_nat qc) (safe0_question main Hb Hm))) as Sq.
  pose proof (fun n => safeP_len_stable _ _ _ (safe0_repeat _ n (safe0_rr main Hb Hm))) as Sr.
  destruct (Sq _ _ _ W6 E7) as (W7 & L7 & _).
  destruct (Sr _ _ _ _ W7 E8) as (W8 & L8 & _).
  destruct (Sr _ _ _ _ W8 E9) as (W9 & L9 & _).
  destruct (Sr _ _ _ _ W9 E10) as (W10 & L10 & _).
  cbn [adv d_len] in L7.
  exists s7, s8, s9. rewrite <- Q, <- A, <- Nc, <- R.
  split; [exact E7|]. split; [exact E8|]. split; [exact E9|]. split; [exact E10|].
  split; [exact (repeat_dm_lenN _ _ _ _ _ E7)|]. split; [exact (repeat_dm_lenN _ _ _ _ _ E8)|].
  split; [exact (repeat_dm_lenN _ _ _ _ _ E9)|]. split; [exact (repeat_dm_lenN _ _ _ _ _ E10)|].
  split; [exact W10|congruence].
Qed.

Lemma dns_tail_inv (m m' : dns) (s s' : dst) : dns_tail m s = DOk m' s' -> m' = m /\ s' = s /\ d_off s = d_len s.
Proof.
  unfold dns_tail. intro E. apply bind_inv in E. destruct E as (fin & s1 & E1 & E).
  apply is_finished_inv in E1. destruct E1 as [-> H]. destruct fin; [|discriminate].
  apply ret_inv in E. destruct E as [-> ->]. split; [reflexivity|]. split; [reflexivity|exact H].
Qed.

Lemma dns_inv (main : bytes) (s : dst) (m : dns) (s' : dst) : dns_ main s = DOk m s' ->
  d_off s = 0 /\ 12 <= d_len s /\ d_len s <= 65536 /\ dns_body main s = DOk m s' /\ d_off s' = d_len s'.
Proof.
  rewrite dns_split. destruct (negb (d_off s =? 0)) eqn:E0; [discriminate|].
  destruct (cmp_apply OP_dns_min (d_len s) DNS_MIN_LENGTH) eqn:E1; [discriminate|].
  destruct (cmp_apply OP_dns_max (d_len s) MAXIMUM_DNS_PACKET_SIZE) eqn:E2; [discriminate|].
  unfold OP_dns_min, OP_dns_max, DNS_MIN_LENGTH, MAXIMUM_DNS_PACKET_SIZE in *. cbn [cmp_apply] in E1, E2.
  intro E. apply bind_inv in E. destruct E as (m0 & s1 & Eb & E).
  apply dns_tail_inv in E. destruct E as (-> & -> & F).
  split; [lia|]. split; [lia|]. split; [lia|]. split; [exact Eb|exact F].
Qed.

(* an accepted message: the four sections hold exactly the announced numbers of entries, read one
   after the other from octet 12 on, and the last record ends the message *)
Theorem sections_exact (b : bytes) (m : dns) (s : dst) : bytes_ok b -> dec_Dns b = DOk m s ->
  lenN (m_qd m) = be (takeN 2 (dropN 4 b)) /\ lenN (m_an m) = be (takeN 2 (dropN 6 b)) /\
  lenN (m_ns m) = be (takeN 2 (dropN 8 b)) /\ lenN (m_ar m) = be (takeN 2 (dropN 10 b)) /\
  d_off s = lenN b /\ d_rest s = [] /\
  exists (s7 s8 s9 : dst),
    repeat_dm (N.to_nat (be (takeN 2 (dropN 4 b)))) (question_ b) (adv 12 (mk_main b)) = DOk (m_qd m) s7 /\
    repeat_dm (N.to_nat (be (takeN 2 (dropN 6 b)))) (rr_ b) s7 = DOk (m_an m) s8 /\
    repeat_dm (N.to_nat (be (takeN 2 (dropN 8 b)))) (rr_ b) s8 = DOk (m_ns m) s9 /\
    repeat_dm (N.to_nat (be (takeN 2 (dropN 10 b)))) (rr_ b) s9 = DOk (m_ar m) s.
Proof.
  intros Hb E. unfold dec_Dns, run in E. apply dns_inv in E. destruct E as (_ & _ & Hmax & Eb & F).
  cbn [mk_main d_len] in Hmax.
  assert (Hm : lenN b < WFMAX) by (unfold WFMAX; lia).
  destruct (dns_body_exact b (mk_main b) m s Hb Hm (mk_main_wf b Hb Hm) Eb)
    as (s7 & s8 & s9 & E7 & E8 & E9 & E10 & Q & A & Nc & R & W & L).
  cbn [mk_main d_rest d_len] in *.
  split; [exact Q|]. split; [exact A|]. split; [exact Nc|]. split; [exact R|].
  split; [congruence|]. split.
  { destruct W as (W1 & _). destruct (d_rest s) as [|x r]; [reflexivity|]. rewrite lenN_cons in W1. lia. }
  exists s7, s8, s9. split; [exact E7|]. split; [exact E8|]. split; [exact E9|exact E10].
Qed.

(* octets after the announced records: RemainingBytes, and exactly then (given that the section
   loops succeed) *)
Theorem dns_remaining (main : bytes) (s : dst) (m : dns) (s1 : dst) :
  d_off s = 0 -> 12 <= d_len s -> d_len s <= 65536 -> dns_body main s = DOk m s1 -> d_off s1 <= d_len s1 ->
  (dns_ main s = DErr (ERemainingBytes, [d_off s1]) (d_cost s1) <-> d_off s1 < d_len s1) /\
  (dns_ main s = DOk m s1 <-> d_off s1 = d_len s1).
Proof.
  intros H0 H1 H2 Eb Hle. rewrite dns_split.
  destruct (negb (d_off s =? 0)) eqn:E0; [lia|].
  unfold OP_dns_min, OP_dns_max, DNS_MIN_LENGTH, MAXIMUM_DNS_PACKET_SIZE. cbn [cmp_apply].
  destruct (d_len s <? 12) eqn:E1; [lia|]. destruct (65536 <? d_len s) eqn:E2; [lia|].
  unfold bind at 1 2. rewrite Eb. unfold dns_tail, bind, is_finished.
  destruct (d_off s1 <? d_len s1) eqn:E3.
  - split; [split; [intros _; lia|intros _; reflexivity]|split; [discriminate|lia]].
  - destruct (d_off s1 =? d_len s1) eqn:E4; [|lia].
    split; [split; [discriminate|lia]|split; [intros _; lia|intros _; reflexivity]].
Qed.
