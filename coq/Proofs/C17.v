(* C17 — address-prefix items (APL items, RFC 3123; EDNS client subnet, RFC 7871) use the RFC forms
   in both directions.
   Input: every RFC form is accepted (Proofs/C17Dec.v gives the exact results; here the property-level
   statements).  Output: family, prefix lengths, negation preserved; the number of address octets is
   characterised exactly (Proofs/C17Enc.v), decoding gives the value back, the APL count is the
   RFC 3123 count and the ECS count is the RFC 7871 count outside the one remaining class of known
   finding KF2 (Proofs/C17Rt.v). *)
From Coq Require Import ZArith ZifyBool ZifyN ZifyNat.
From DNS Require Import Proofs.EncTotal Model.Values Model.Dec Model.Enc Proofs.DecBase Proofs.C12 Proofs.C17Dec
  Proofs.C17Enc.
Local Open Scope N_scope.
Ltac Zify.zify_post_hook ::= Z.div_mod_to_equations.

(* ================================================================================================ *)
(* 1. Input side                                                                                     *)
(* ================================================================================================ *)

(* Decoder::rr_address on a window holding exactly the address octets *)
Theorem accept_address : forall (fam : N) (s : dst), fam = 1 \/ fam = 2 -> d_off s <= d_len s ->
  (lenN (d_rest s) <= fam_size fam ->
     rr_address fam s =
       DOk {| a_fam := fam; a_oct := d_rest s ++ zeros (N.to_nat (fam_size fam - lenN (d_rest s))) |}
           (vec_end s)) /\
  (fam_size fam < lenN (d_rest s) ->
     rr_address fam s = DErr (fam_err fam, [lenN (d_rest s)]) (d_cost s + (d_len s - d_off s))) /\
  ((exists a s', rr_address fam s = DOk a s') <-> lenN (d_rest s) <= fam_size fam) /\
  (forall x, rr_address fam s <> DPanic x) /\
  rr_address fam s <> DFuel.
Proof.
  intros fam s Hfam Hle. rewrite (rr_address_eq fam s Hle). unfold zfill. rewrite (fam_tag_id fam Hfam).
  destruct (lenN (d_rest s) <=? fam_size fam) eqn:E; [apply N.leb_le in E|apply N.leb_gt in E].
  - split; [intros _; reflexivity|]. split; [intros H; lia|].
    split; [split; [intros _; exact E|intros _; eexists; eexists; reflexivity]|].
    split; [intros x|]; discriminate.
  - split; [intros H; lia|]. split; [intros _; reflexivity|].
    split; [split; [intros (a & s' & H); discriminate H|intros H; lia]|].
    split; [intros x|]; discriminate.
Qed.

(* -- which error the prefix check reports -- *)
Definition prefix_err (fam : N) : etag := if fam =? 1 then EIpv4Prefix else EIpv6Prefix.
Definition mask_err (fam : N) : etag := if fam =? 1 then EIpv4Mask else EIpv6Mask.

Lemma check_addr_bits_shape bits e1 e2 (oct : bytes) p :
  (bits < p /\ check_addr_bits bits e1 e2 oct p = Err (e1, [p])) \/
  (p <= bits /\ (check_addr_bits bits e1 e2 oct p = Ok tt \/
                 check_addr_bits bits e1 e2 oct p = Err (e2, [p]) \/
                 exists x, check_addr_bits bits e1 e2 oct p = Panic x)).
Proof.
  unfold check_addr_bits.
  destruct (bits <? p) eqn:E1; [apply N.ltb_lt in E1; left; split; [exact E1|reflexivity]|].
  apply N.ltb_ge in E1. right. split; [exact E1|].
  destruct (bits =? p); [left; reflexivity|]. cbv zeta.
  destruct (nthN (p / 8) oct) as [o|]; [|right; right; eexists; reflexivity].
  destruct (8 <=? p mod 8); [right; right; eexists; reflexivity|].
  destruct (negb (N.land o (N.shiftr PREFIX_MASK (p mod 8)) =? 0)); [right; left; reflexivity|].
  destruct (lenN oct <? p / 8 + 1); [right; right; eexists; reflexivity|].
  destruct (forallb (N.eqb 0) (dropN (p / 8 + 1) oct)); [left; reflexivity|right; left; reflexivity].
Qed.

Lemma check_prefix_cases (a : addr) (p : N) : addr_wf a ->
  (prefix_ok a p /\ check_prefix a p = Ok tt) \/
  (8 * addr_size a < p /\ check_prefix a p = Err (prefix_err (a_fam a), [p])) \/
  (p <= 8 * addr_size a /\ ~ prefix_ok a p /\ check_prefix a p = Err (mask_err (a_fam a), [p])).
Proof.
  intros Hwf. destruct (check_prefix_spec a p Hwf) as (Hiff & Hnp & _).
  assert (Hshape :
    (8 * addr_size a < p /\ check_prefix a p = Err (prefix_err (a_fam a), [p])) \/
    (p <= 8 * addr_size a /\ (check_prefix a p = Ok tt \/ check_prefix a p = Err (mask_err (a_fam a), [p]) \/
                              exists x, check_prefix a p = Panic x))).
  { unfold check_prefix, addr_size, prefix_err, mask_err.
    destruct (a_fam a =? 1).
    - rewrite IPV4_BITS_val. change (8 * 4) with 32. apply check_addr_bits_shape.
    - rewrite IPV6_BITS_val. change (8 * 16) with 128. apply check_addr_bits_shape. }
  destruct Hshape as [[H1 H2]|[H1 [H2|[H2|[x H2]]]]].
  - right. left. split; assumption.
  - left. split; [apply Hiff; exact H2|exact H2].
  - right. right. split; [exact H1|]. split; [|exact H2].
    intros Hok. apply Hiff in Hok. rewrite Hok in H2. discriminate H2.
  - exfalso. exact (Hnp x H2).
Qed.

Lemma zfill_fam fam a : fam = 1 \/ fam = 2 -> a_fam (zfill fam a) = fam.
Proof. intros H. unfold zfill. cbn [a_fam]. apply fam_tag_id. exact H. Qed.

Lemma fam_ok_b fam : ((fam =? 1) || (fam =? 2)) = true <-> fam = 1 \/ fam = 2.
Proof. rewrite orb_true_iff, !N.eqb_eq. reflexivity. Qed.

(* -- Decoder::rr_apl_apitem: the five outcomes -- *)
Section Apitem.
Variables (s : dst) (fh fl p : N) (neg : bool) (a rest : bytes).
Let fam := fh * 256 + fl.
Let item := {| i_prefix := p; i_neg := neg; i_addr := zfill fam a |}.
Let s_end := {| d_rest := rest; d_off := d_off s + (4 + lenN a); d_len := d_len s;
                d_cost := d_cost s + (4 + 2 * lenN a) |}.
Let c_end := d_cost s + (4 + 2 * lenN a).
Hypothesis W : dst_wf s.
Hypothesis Hk : lenN a < 128.
Hypothesis Hr : d_rest s = fh :: fl :: p :: (negbit neg + lenN a) :: a ++ rest.

Lemma apitem_cases :
  (fam <> 1 /\ fam <> 2 /\ rr_apl_apitem s = DErr (EEcsAddressNumber, [fam]) (d_cost s + 2)) \/
  ((fam = 1 \/ fam = 2) /\ fam_size fam < lenN a /\ rr_apl_apitem s = DErr (fam_err fam, [lenN a]) c_end) \/
  ((fam = 1 \/ fam = 2) /\ lenN a <= fam_size fam /\ 8 * fam_size fam < p /\
     rr_apl_apitem s = DErr (prefix_err fam, [p]) c_end) \/
  ((fam = 1 \/ fam = 2) /\ lenN a <= fam_size fam /\ p <= 8 * fam_size fam /\ ~ prefix_ok (zfill fam a) p /\
     rr_apl_apitem s = DErr (mask_err fam, [p]) c_end) \/
  ((fam = 1 \/ fam = 2) /\ lenN a <= fam_size fam /\ prefix_ok (zfill fam a) p /\
     rr_apl_apitem s = DOk item s_end).
Proof.
  rewrite (rr_apl_apitem_eq s fh fl p neg a rest W Hk Hr). fold fam. unfold apitem_result.
  destruct ((fam =? 1) || (fam =? 2)) eqn:Ef.
  2:{ left. apply orb_false_iff in Ef. destruct Ef as [E1 E2]. apply N.eqb_neq in E1, E2.
      split; [exact E1|]. split; [exact E2|reflexivity]. }
  apply fam_ok_b in Ef. right.
  destruct (lenN a <=? fam_size fam) eqn:El; [apply N.leb_le in El|apply N.leb_gt in El].
  2:{ left. split; [exact Ef|]. split; [exact El|reflexivity]. }
  right.
  assert (Hb : bytes_ok a).
  { destruct W as (_ & _ & _ & Hb). rewrite Hr in Hb.
    inversion Hb as [|? ? _ Hb1]; subst. inversion Hb1 as [|? ? _ Hb2]; subst.
    inversion Hb2 as [|? ? _ Hb3]; subst. inversion Hb3 as [|? ? _ Hb4]; subst.
    apply Forall_app in Hb4. apply Hb4. }
  pose proof (zfill_wf fam a Hb El) as Hwf.
  destruct (check_prefix_cases (zfill fam a) p Hwf) as [[H1 H2]|[[H1 H2]|[H1 [H2 H3]]]];
    rewrite ?zfill_size, ?(zfill_fam fam a Ef) in *.
  - right. right. rewrite H2. split; [exact Ef|]. split; [exact El|]. split; [exact H1|reflexivity].
  - left. rewrite H2. split; [exact Ef|]. split; [exact El|]. split; [exact H1|reflexivity].
  - right. left. rewrite H3. split; [exact Ef|]. split; [exact El|]. split; [exact H1|].
    split; [exact H2|reflexivity].
Qed.
End Apitem.

Theorem accept_apitem : forall (s : dst) (fh fl p : N) (neg : bool) (a rest : bytes),
  dst_wf s -> lenN a < 128 ->
  d_rest s = fh :: fl :: p :: (negbit neg + lenN a) :: a ++ rest ->
  let fam := fh * 256 + fl in
  let accepted := (fam = 1 \/ fam = 2) /\ lenN a <= fam_size fam /\ prefix_ok (zfill fam a) p in
  (accepted ->
     rr_apl_apitem s =
       DOk {| i_prefix := p; i_neg := neg;
              i_addr := {| a_fam := fam; a_oct := a ++ zeros (N.to_nat (fam_size fam - lenN a)) |} |}
           {| d_rest := rest; d_off := d_off s + (4 + lenN a); d_len := d_len s;
              d_cost := d_cost s + (4 + 2 * lenN a) |}) /\
  ((exists i s', rr_apl_apitem s = DOk i s') <-> accepted) /\
  (~ accepted -> exists e c, rr_apl_apitem s = DErr e c) /\
  (forall x, rr_apl_apitem s <> DPanic x) /\
  rr_apl_apitem s <> DFuel.
Proof.
  intros s fh fl p neg a rest W Hk Hr fam accepted.
  pose proof (apitem_cases s fh fl p neg a rest W Hk Hr) as C. fold fam in C.
  assert (Hacc : accepted -> rr_apl_apitem s =
       DOk {| i_prefix := p; i_neg := neg;
              i_addr := {| a_fam := fam; a_oct := a ++ zeros (N.to_nat (fam_size fam - lenN a)) |} |}
           {| d_rest := rest; d_off := d_off s + (4 + lenN a); d_len := d_len s;
              d_cost := d_cost s + (4 + 2 * lenN a) |}).
  { intros (A1 & A2 & A3).
    destruct C as [(C1 & C2 & _)|[(_ & C1 & _)|[(_ & _ & C1 & _)|[(_ & _ & _ & C1 & _)|(_ & _ & _ & C1)]]]].
    - exfalso. destruct A1; contradiction.
    - exfalso. lia.
    - exfalso. destruct A3 as [A3 _]. rewrite zfill_size in A3. lia.
    - exfalso. contradiction.
    - rewrite C1. unfold zfill. rewrite (fam_tag_id fam A1). reflexivity. }
  assert (Hrej : ~ accepted -> exists e c, rr_apl_apitem s = DErr e c).
  { intros Hn.
    destruct C as [(_ & _ & C1)|[(_ & _ & C1)|[(_ & _ & _ & C1)|[(_ & _ & _ & _ & C1)|(C1 & C2 & C3 & _)]]]];
      try (eexists; eexists; exact C1).
    exfalso. apply Hn. split; [exact C1|]. split; [exact C2|exact C3]. }
  split; [exact Hacc|].
  split.
  { split.
    - intros (i & s' & Hok).
      destruct C as [(_ & _ & C1)|[(_ & _ & C1)|[(_ & _ & _ & C1)|[(_ & _ & _ & _ & C1)|(C1 & C2 & C3 & _)]]]];
        try (rewrite C1 in Hok; discriminate Hok).
      split; [exact C1|]. split; [exact C2|exact C3].
    - intros H. eexists. eexists. apply Hacc. exact H. }
  split; [exact Hrej|].
  split.
  - intros x.
    destruct C as [(_ & _ & C1)|[(_ & _ & C1)|[(_ & _ & _ & C1)|[(_ & _ & _ & _ & C1)|(_ & _ & _ & C1)]]]];
      rewrite C1; discriminate.
  - destruct C as [(_ & _ & C1)|[(_ & _ & C1)|[(_ & _ & _ & C1)|[(_ & _ & _ & _ & C1)|(_ & _ & _ & C1)]]]];
      rewrite C1; discriminate.
Qed.

(* the errors, exactly (RFC 3123: family not 1/2; AFDLENGTH beyond the family size; prefix beyond the
   family size; an address bit beyond the prefix) *)
Theorem reject_apitem : forall (s : dst) (fh fl p : N) (neg : bool) (a rest : bytes),
  dst_wf s -> lenN a < 128 ->
  d_rest s = fh :: fl :: p :: (negbit neg + lenN a) :: a ++ rest ->
  let fam := fh * 256 + fl in
  let c_end := d_cost s + (4 + 2 * lenN a) in
  (fam <> 1 -> fam <> 2 -> rr_apl_apitem s = DErr (EEcsAddressNumber, [fam]) (d_cost s + 2)) /\
  (fam = 1 \/ fam = 2 -> fam_size fam < lenN a -> rr_apl_apitem s = DErr (fam_err fam, [lenN a]) c_end) /\
  (fam = 1 \/ fam = 2 -> lenN a <= fam_size fam -> 8 * fam_size fam < p ->
     rr_apl_apitem s = DErr (prefix_err fam, [p]) c_end) /\
  (fam = 1 \/ fam = 2 -> lenN a <= fam_size fam -> p <= 8 * fam_size fam -> ~ prefix_ok (zfill fam a) p ->
     rr_apl_apitem s = DErr (mask_err fam, [p]) c_end).
Proof.
  intros s fh fl p neg a rest W Hk Hr fam c_end.
  pose proof (apitem_cases s fh fl p neg a rest W Hk Hr) as C. fold fam in C. fold c_end in C.
  split; [|split; [|split]].
  - intros N1 N2.
    destruct C as [(_ & _ & C1)|[(F & _)|[(F & _)|[(F & _)|(F & _)]]]]; [exact C1| | | |];
      exfalso; destruct F; contradiction.
  - intros F L.
    destruct C as [(N1 & N2 & _)|[(_ & _ & C1)|[(_ & L' & _)|[(_ & L' & _)|(_ & L' & _)]]]];
      [exfalso; destruct F; contradiction|exact C1| | |]; exfalso; lia.
  - intros F L P.
    destruct C as [(N1 & N2 & _)|[(_ & L' & _)|[(_ & _ & _ & C1)|[(_ & _ & P' & _)|(_ & _ & P' & _)]]]];
      [exfalso; destruct F; contradiction|exfalso; lia|exact C1|exfalso; lia|].
    exfalso. destruct P' as [P' _]. rewrite zfill_size in P'. lia.
  - intros F L P Hn.
    destruct C as [(N1 & N2 & _)|[(_ & L' & _)|[(_ & _ & P' & _)|[(_ & _ & _ & _ & C1)|(_ & _ & P' & _)]]]];
      [exfalso; destruct F; contradiction|exfalso; lia|exfalso; lia|exact C1|exfalso; contradiction].
Qed.

(* -- Decoder::rr_edns_ecs on the option body: family, source, scope, then 0..size address octets -- *)
Theorem accept_ecs : forall (s : dst) (fh fl src scope : N) (a : bytes),
  dst_wf s -> d_rest s = fh :: fl :: src :: scope :: a ->
  let fam := fh * 256 + fl in
  let accepted := (fam = 1 \/ fam = 2) /\ lenN a <= fam_size fam /\ prefix_ok (zfill fam a) (N.max src scope) in
  (accepted ->
     rr_edns_ecs s =
       DOk {| e_src := src; e_scope := scope;
              e_addr := {| a_fam := fam; a_oct := a ++ zeros (N.to_nat (fam_size fam - lenN a)) |} |}
           {| d_rest := []; d_off := d_off s + (4 + lenN a); d_len := d_len s;
              d_cost := d_cost s + (4 + lenN a) |}) /\
  ((exists e s', rr_edns_ecs s = DOk e s') <-> accepted) /\
  (~ accepted -> exists e c, rr_edns_ecs s = DErr e c) /\
  (forall x, rr_edns_ecs s <> DPanic x) /\
  rr_edns_ecs s <> DFuel.
Proof.
  intros s fh fl src scope a W Hr fam accepted.
  rewrite (rr_edns_ecs_eq s fh fl src scope a W Hr). fold fam. unfold ecs_result.
  destruct ((fam =? 1) || (fam =? 2)) eqn:Ef.
  2:{ assert (Hn : ~ accepted).
      { intros (A1 & _). apply fam_ok_b in A1. rewrite A1 in Ef. discriminate Ef. }
      split; [intros H; contradiction|].
      split; [split; [intros (e & s' & H); discriminate H|intros H; contradiction]|].
      split; [intros _; eexists; eexists; reflexivity|].
      split; [intros x|]; discriminate. }
  apply fam_ok_b in Ef.
  destruct (lenN a <=? fam_size fam) eqn:El; [apply N.leb_le in El|apply N.leb_gt in El].
  2:{ assert (Hn : ~ accepted) by (intros (_ & A2 & _); lia).
      split; [intros H; contradiction|].
      split; [split; [intros (e & s' & H); discriminate H|intros H; contradiction]|].
      split; [intros _; eexists; eexists; reflexivity|].
      split; [intros x|]; discriminate. }
  assert (Hb : bytes_ok a).
  { destruct W as (_ & _ & _ & Hb). rewrite Hr in Hb.
    inversion Hb as [|? ? _ Hb1]; subst. inversion Hb1 as [|? ? _ Hb2]; subst.
    inversion Hb2 as [|? ? _ Hb3]; subst. inversion Hb3 as [|? ? _ Hb4]; subst. exact Hb4. }
  pose proof (zfill_wf fam a Hb El) as Hwf.
  unfold ecs_new, ecs_check, ecs_prefix. cbn [e_addr e_src e_scope].
  destruct (check_prefix_cases (zfill fam a) (N.max src scope) Hwf) as [[H1 H2]|[[H1 H2]|[H1 [H2 H3]]]].
  - rewrite H2.
    assert (Hacc : accepted) by (split; [exact Ef|]; split; [exact El|exact H1]).
    split; [intros _; unfold zfill; rewrite (fam_tag_id fam Ef); reflexivity|].
    split; [split; [intros _; exact Hacc|intros _; eexists; eexists; reflexivity]|].
    split; [intros H; contradiction|].
    split; [intros x|]; discriminate.
  - rewrite H2.
    assert (Hn : ~ accepted) by (intros (_ & _ & [A3 _]); lia).
    split; [intros H; contradiction|].
    split; [split; [intros (e & s' & H); discriminate H|intros H; contradiction]|].
    split; [intros _; eexists; eexists; reflexivity|].
    split; [intros x|]; discriminate.
  - rewrite H3.
    assert (Hn : ~ accepted) by (intros (_ & _ & A3); contradiction).
    split; [intros H; contradiction|].
    split; [split; [intros (e & s' & H); discriminate H|intros H; contradiction]|].
    split; [intros _; eexists; eexists; reflexivity|].
    split; [intros x|]; discriminate.
Qed.

(* ================================================================================================ *)
(* 2. Output side: the emitted octets                                                                *)
(* ================================================================================================ *)

(* "index of the last non-zero octet + 1" *)
Theorem significant_def : forall l : bytes,
  addr_significant l <= lenN l /\
  forallb (N.eqb 0) (dropN (addr_significant l) l) = true /\
  (addr_significant l = 0 \/ exists x, nthN (addr_significant l - 1) l = Some x /\ x <> 0).
Proof. exact addr_significant_spec. Qed.

Theorem emit_address : forall (a : addr) (m : N) (st : est), addr_wf a -> m <= addr_size a ->
  let cnt := N.max (addr_significant (a_oct a)) m in
  rr_address_with_length a m st =
    EOk tt {| e_buf := e_buf st ++ takeN cnt (a_oct a); e_idx := e_idx st; e_names := e_names st |} /\
  lenN (takeN cnt (a_oct a)) = cnt.
Proof.
  intros a m st Hwf Hm cnt. rewrite rr_address_with_length_count.
  split; [reflexivity|]. rewrite lenN_takeN_. fold (emit_count (a_oct a) m) in cnt.
  pose proof (emit_count_le (a_oct a) m) as H. rewrite (addr_wf_len a Hwf) in *. fold cnt in H. lia.
Qed.

Lemma u16b_fam fam : fam = 1 \/ fam = 2 -> u16b fam = [0; fam].
Proof. intros [->| ->]; reflexivity. Qed.
Lemma addr_wf_fam a : addr_wf a -> a_fam a = 1 \/ a_fam a = 2.
Proof. intros [[[H _]|[H _]] _]; [left|right]; exact H. Qed.

(* no bit at or beyond the prefix is set, so every octet from index ceil(p / 8) on is zero *)
Lemma tail_zero (a : addr) (p : N) : addr_wf a -> prefix_ok a p ->
  forall k, (p + 7) / 8 <= k < lenN (a_oct a) -> nth (N.to_nat k) (a_oct a) 0 = 0.
Proof.
  intros Hwf [Hp Hbits] k [Hk1 Hk2]. rewrite (addr_wf_len a Hwf) in Hk2.
  destruct Hwf as [_ Hoct].
  apply octet_zero_spec; [apply Forall_nth_lt; exact Hoct|].
  intros j Hj. specialize (Hbits (8 * k + j)). unfold addr_bit in Hbits.
  destruct (divmod8_unique k j Hj) as [Hq Hr]. rewrite Hq, Hr in Hbits. apply Hbits. lia.
Qed.
Lemma significant_within_prefix (a : addr) (p : N) : addr_wf a -> prefix_ok a p ->
  addr_significant (a_oct a) <= (p + 7) / 8.
Proof.
  intros Hwf Hok. apply addr_significant_least. apply rest_zero_spec.
  intros k Hk. apply (tail_zero a p Hwf Hok). exact Hk.
Qed.

Theorem emit_apitem : forall (i : apitem) (st : est), apitem_inv i ->
  let cnt := addr_significant (a_oct (i_addr i)) in
  enc_apitem i st =
    EOk tt {| e_buf := e_buf st ++ u16b (a_fam (i_addr i)) ++ [i_prefix i mod 256]
                        ++ [(if i_neg i then 128 else 0) + cnt] ++ takeN cnt (a_oct (i_addr i));
              e_idx := e_idx st; e_names := e_names st |} /\
  lenN (takeN cnt (a_oct (i_addr i))) = cnt /\
  i_prefix i mod 256 = i_prefix i /\ cnt < 128 /\ cnt <= (i_prefix i + 7) / 8.
Proof.
  intros i st [Hwf Hok] cnt. pose proof Hok as [Hp _].
  split; [exact (enc_apitem_eq i st Hwf)|].
  pose proof (addr_size_cases (i_addr i)) as Hs.
  pose proof (addr_significant_le (a_oct (i_addr i))) as Hle. rewrite (addr_wf_len _ Hwf) in Hle. fold cnt in Hle.
  split; [rewrite lenN_takeN_, (addr_wf_len _ Hwf); lia|].
  split; [apply N.mod_small; lia|]. split; [lia|].
  exact (significant_within_prefix (i_addr i) (i_prefix i) Hwf Hok).
Qed.

Lemma ecs_inv_src (e : ecs) : ecs_inv e -> e_src e <= 8 * addr_size (e_addr e).
Proof. intros [_ [Hp _]]. lia. Qed.

Theorem emit_ecs : forall (e : ecs) (st : est), ecs_inv e ->
  let cnt := N.max (addr_significant (a_oct (e_addr e))) ((e_src e + 7) / 8) in
  enc_ecs e st =
    EOk tt {| e_buf := e_buf st ++ u16b 8 ++ u16b (4 + cnt) ++ u16b (a_fam (e_addr e))
                        ++ [e_src e mod 256] ++ [e_scope e mod 256] ++ takeN cnt (a_oct (e_addr e));
              e_idx := e_idx st; e_names := e_names st |} /\
  lenN (takeN cnt (a_oct (e_addr e))) = cnt /\
  e_src e mod 256 = e_src e /\ e_scope e mod 256 = e_scope e.
Proof.
  intros e st Hinv cnt. pose proof Hinv as [Hwf [Hp _]]. pose proof (ecs_inv_src e Hinv) as Hsrc.
  split; [exact (enc_ecs_eq e st Hwf Hsrc)|].
  pose proof (addr_size_cases (e_addr e)) as Hs.
  pose proof (ecs_count_le e Hwf Hsrc) as Hle. change (ecs_count e) with cnt in Hle.
  split; [rewrite lenN_takeN_, (addr_wf_len _ Hwf); lia|].
  split; apply N.mod_small; lia.
Qed.
