(* C05 (renderings) — the OPT pseudo-record, APL and SVCB/HTTPS records, and the record dispatcher.
   What the encoder normalises: the key list of a `mandatory` SvcParam is written in ascending order
   ([norm_rr]); nothing else. *)
From Coq Require Import ZArith ZifyBool ZifyN ZifyNat Permutation.
From DNS Require Import Model.Dec Model.Enc Spec.Names Spec.Iana Spec.Wire Spec.Render
  Proofs.ListN Proofs.Enum Proofs.NameLayer Proofs.NameLoop Proofs.NameMain Proofs.NameSlots
  Proofs.EncTotal Proofs.EncLimits Proofs.EncTyped
  Proofs.C12 Proofs.OptBase Proofs.OptTtl Proofs.OptDec Proofs.OptRt Proofs.C15
  Proofs.SvcbSet Proofs.SvcbDec Proofs.SvcbEnc Proofs.SvcbRound
  Proofs.RtBase Proofs.RtPrim Proofs.RtFields Proofs.RtRecord Proofs.RtSpecial Proofs.RtApl Proofs.C05
  Proofs.RenderSvcb Proofs.EncRenderBase Proofs.EncRenderFields.
Local Open Scope N_scope.
Ltac Zify.zify_post_hook ::= Z.div_mod_to_equations.

(* ================================================================================================ *)
(* What the encoder normalises                                                                       *)
(* ================================================================================================ *)
Definition norm_rdata (d : rdata) : rdata :=
  match d with RSvcb prio target ps => RSvcb prio target (map norm ps) | _ => d end.
Definition norm_rr (r : rr) : rr :=
  {| r_type := r_type r; r_name := r_name r; r_class := r_class r; r_ttl := r_ttl r;
     r_data := norm_rdata (r_data r) |}.

Lemma norm_rr_id (r : rr) : norm_rdata (r_data r) = r_data r -> norm_rr r = r.
Proof. unfold norm_rr. intros ->. destruct r; reflexivity. Qed.

(* ================================================================================================ *)
(* Address prefixes                                                                                  *)
(* ================================================================================================ *)
Lemma forallb_zero_all (l : bytes) : forallb (N.eqb 0) l = true -> all_zero l.
Proof.
  induction l as [|x l IH]; cbn [forallb]; intro H; constructor.
  - apply andb_true_iff in H. destruct H as [H1 _]. apply N.eqb_eq in H1. symmetry. exact H1.
  - apply IH. apply andb_true_iff in H. exact (proj2 H).
Qed.

(* every octet behind the significant ones is zero *)
Lemma cut_zero (a : addr) (k : N) : addr_significant (a_oct a) <= k -> all_zero (dropN k (a_oct a)).
Proof. intros H. apply forallb_zero_all. apply addr_significant_dropped. exact H. Qed.

(* the encoder's cut: the octets up to the last non-zero one, or more (a minimum length) *)
Lemma addr_cut_renders (a : addr) (k : N) : addr_significant (a_oct a) <= k ->
  renders_addr a (takeN k (a_oct a)).
Proof.
  intros P. pose proof (cut_zero a k P) as Z.
  destruct (N.le_gt_cases k (lenN (a_oct a))) as [H|H].
  - apply RA_cut; assumption.
  - assert (takeN k (a_oct a) = takeN (lenN (a_oct a)) (a_oct a)) as ->.
    { unfold takeN. unfold lenN in H. rewrite !firstn_all2; [reflexivity|unfold lenN; lia|lia]. }
    apply RA_cut; [lia|]. unfold dropN. rewrite skipn_all2 by (unfold lenN; lia). constructor.
Qed.

Lemma addr_fam_small (a : addr) : addr_wf a -> a_fam a < 65536.
Proof. intro W. destruct (addr_wf_len a W) as [_ [-> | ->]]; lia. Qed.

(* ================================================================================================ *)
(* EDNS options                                                                                      *)
(* ================================================================================================ *)
Lemma all_zero_zeros (k : nat) : all_zero (zeros k).
Proof. induction k as [|k IH]; cbn [zeros]; constructor; [reflexivity|exact IH]. Qed.

Theorem option_renders (o : ednsopt) : opt_valid o -> renders_option o (opt_wire o).
Proof.
  intro V. pose proof (opt_body_len o V) as HL. unfold opt_wire.
  destruct o as [e|c|n]; cbn [opt_valid opt_code opt_body] in *.
  - destruct V as ([W P] & Hs & Hc). destruct (ecs_body_len e W) as [HB _].
    rewrite HB. unfold ecs_body.
    rewrite (u16b_be16 8), (u16b_be16 (4 + lenN (ecs_cut e))), (u16b_be16 (a_fam (e_addr e))),
            (u8b_is (e_src e)), (u8b_is (e_scope e)); try lia; [|apply addr_fam_small, W].
    apply (RO_ecs e (ecs_cut e)). unfold ecs_cut, ecs_count. apply addr_cut_renders. lia.
  - rewrite (u16b_be16 10), (u16b_be16 (lenN (cookie_body c))) by lia.
    exact (RO_cookie c).
  - rewrite (u16b_be16 12) by lia. rewrite lenN_zeros, N2Nat.id, (u16b_be16 n) by lia.
    apply RO_padding; [rewrite lenN_zeros; apply N2Nat.id|apply all_zero_zeros].
Qed.

Lemma Forall2_map_wire {A} (R : A -> bytes -> Prop) (f : A -> bytes) (l : list A) :
  Forall (fun x => R x (f x)) l -> Forall2 R l (map f l).
Proof. induction 1; cbn [map]; constructor; assumption. Qed.

Theorem ren_rr_opt (r : rr) : opt_rr_wf r = true -> renP (enc_rr r) (fun pre w => renders_rr pre r w).
Proof.
  unfold opt_rr_wf. intros H. apply andb_true_iff in H. destruct H as [H Hd].
  apply andb_true_iff in H. destruct H as [H Httl]. apply andb_true_iff in H. destruct H as [H Hcl].
  apply andb_true_iff in H. destruct H as [Hty Hnm]. apply N.eqb_eq in Hty.
  destruct (r_name r) as [|l0 n0] eqn:En; [|discriminate]. clear Hnm.
  destruct (r_data r) as [|payload ext ver dnssec opts| |] eqn:Ed; try discriminate.
  apply andb_true_iff in Hd. destruct Hd as [Hd Ho]. apply andb_true_iff in Hd. destruct Hd as [Hd Hv].
  apply andb_true_iff in Hd. destruct Hd as [Hp He].
  pose proof (opts_wfb_valid opts Ho) as V.
  assert (ext < 256) as He' by lia. assert (ver < 256) as Hv' by lia.
  assert (enc_rr r = rr_frame_enc [] 41 payload (enc_opt_ttl ext ver dnssec) (emap enc_edns_option opts)) as Eenc.
  { unfold enc_rr. rewrite Hty, lookup_opt_enc, Ed. reflexivity. }
  rewrite Eenc.
  assert (encP (emap enc_edns_option opts)) as Pb by (apply encP_appends, (appends_emits _ _ (emits_options opts V))).
  assert (renP (emap enc_edns_option opts) (fun _ w => w = opts_wire opts)) as Rb.
  { apply (renP_emits _ _ _ (emits_options opts V)). reflexivity. }
  pose proof (enc_opt_ttl_val ext ver dnssec He' Hv') as Ettl.
  eapply renP_weaken; [|apply (ren_rr_frame [] 41 payload (enc_opt_ttl ext ver dnssec) _ _ eq_refl
                                  ltac:(lia) ltac:(lia) ltac:(rewrite Ettl; apply ttl_word_lt; assumption) Pb Rb)].
  cbv beta. intros pre w (wn & wd & Hwn & Hl & -> & ->).
  assert (frame_head 41 payload (enc_opt_ttl ext ver dnssec) (lenN (opts_wire opts)) = rr_head r (lenN (opts_wire opts))) as Eh.
  { unfold frame_head, rr_head, wire_class, wire_ttl. rewrite Ed, Hty, Ettl. reflexivity. }
  rewrite Eh. apply RR_record; [rewrite En; exact Hwn|]. rewrite Ed, Hty.
  unfold opts_wire. apply RD_opt. apply Forall2_map_wire.
  eapply Forall_impl; [|exact V]. intros o Vo. apply option_renders, Vo.
Qed.

(* ================================================================================================ *)
(* APL                                                                                               *)
(* ================================================================================================ *)
Lemma lor128_all : forallb (fun n => N.lor n 128 =? 128 + n) (nrange 128) = true.
Proof. vm_compute. reflexivity. Qed.
Lemma lor128 (n : N) : n < 128 -> N.lor n 128 = 128 + n.
Proof.
  intro H. pose proof (proj1 (forallb_forall _ _) lor128_all n (nrange_in _ _ H)) as G.
  apply N.eqb_eq in G. exact G.
Qed.

Theorem apitem_renders (i : apitem) : apitem_wfb i = true -> renders_apitem i (apitem_wire i).
Proof.
  intro H. destruct (apitem_wfb_inv i H) as (W & Hchk & Hp).
  pose proof (check_prefix_ok _ _ W Hchk) as P.
  destruct (apl_cut_len i W) as [_ Hc].
  assert (apl_lenoct i = (if i_neg i then 128 else 0) + lenN (apl_cut i)) as El.
  { unfold apl_lenoct. destruct (i_neg i); [apply lor128; lia|reflexivity]. }
  unfold apitem_wire. rewrite El.
  rewrite (u16b_be16 (a_fam (i_addr i))) by (apply addr_fam_small, W).
  rewrite (u8b_is (i_prefix i)) by exact Hp.
  rewrite (u8b_is _) by (destruct (i_neg i); lia).
  apply (RI_item i (apl_cut i)). unfold apl_cut. apply addr_cut_renders. apply N.le_refl.
Qed.

Theorem ren_rr_apl (r : rr) : apl_rr_wf r = true -> renP (enc_rr r) (fun pre w => renders_rr pre r w).
Proof.
  unfold apl_rr_wf. intros H. apply andb_true_iff in H. destruct H as [H Hd].
  apply andb_true_iff in H. destruct H as [H Hcl]. apply andb_true_iff in H. destruct H as [Hc Hty].
  destruct (common_wf_inv r Hc) as (Hn & Htt & Httl). apply N.eqb_eq in Hty, Hcl.
  destruct (r_data r) as [| |items|] eqn:Ed; try discriminate.
  assert (enc_rr r = rr_frame_enc (r_name r) 42 CLASS_IN (r_ttl r) (emap enc_apitem items)) as Eenc.
  { unfold enc_rr. rewrite Hty, lookup_apl_enc, Ed. reflexivity. }
  rewrite Eenc.
  pose proof (apl_items_emits items Hd) as Hem.
  assert (encP (emap enc_apitem items)) as Pb by (apply encP_appends, (appends_emits _ _ Hem)).
  assert (renP (emap enc_apitem items) (fun _ w => w = concat (map apitem_wire items))) as Rb.
  { apply (renP_emits _ _ _ Hem). reflexivity. }
  eapply renP_weaken; [|apply (ren_rr_frame (r_name r) 42 CLASS_IN (r_ttl r) _ _ Hn
                                  ltac:(lia) ltac:(unfold CLASS_IN; lia) Httl Pb Rb)].
  cbv beta. intros pre w (wn & wd & Hwn & Hl & -> & ->).
  set (wd := concat (map apitem_wire items)).
  assert (frame_head 42 CLASS_IN (r_ttl r) (lenN wd) = rr_head r (lenN wd)) as Eh.
  { unfold frame_head, rr_head, wire_class, wire_ttl. rewrite Ed, Hty, Hcl. reflexivity. }
  rewrite Eh. apply RR_record; [exact Hwn|]. rewrite Ed, Hty.
  unfold wd. apply RD_apl. apply Forall2_map_wire.
  rewrite Forall_forall. rewrite forallb_forall in Hd. intros i Hi. apply apitem_renders, Hd, Hi.
Qed.

(* ================================================================================================ *)
(* SvcParams                                                                                         *)
(* ================================================================================================ *)
Lemma concat_map_ext {A} (f g : A -> bytes) (l : list A) :
  Forall (fun x => f x = g x) l -> concat (map f l) = concat (map g l).
Proof. induction 1 as [|x l Hx _ IH]; cbn [map concat]; [reflexivity|]. rewrite Hx, IH. reflexivity. Qed.

Lemma value_bytes_norm (p : svcparam) : param_wfb p = true -> value_fits p ->
  value_bytes p = param_value (norm p).
Proof.
  destruct p as [keys|ids| |port|h|cl|h|n d| ]; cbn [param_wfb value_fits norm value_bytes param_value];
    intros H F; try reflexivity.
  - apply concat_map_ext. apply sort_keys_Forall.
    rewrite Forall_forall. rewrite forallb_forall in H. intros k Hk. apply u16b_be16. specialize (H k Hk). lia.
  - apply u16b_be16. lia.
  - apply concat_map_ext. rewrite Forall_forall. rewrite forallb_forall in H. intros k Hk.
    apply u32b_be32. specialize (H k Hk). lia.
  - rewrite u16b_be16 by lia. reflexivity.
Qed.

Theorem param_wire_norm (p : svcparam) : param_wfb p = true -> param_fits p ->
  SvcbEnc.param_wire p = Spec.Render.param_wire (norm p).
Proof.
  intros H [F L]. unfold SvcbEnc.param_wire, Spec.Render.param_wire.
  rewrite norm_key, <- (value_bytes_norm p H F).
  rewrite (u16b_be16 (param_key p)) by (apply param_key_lt, H).
  rewrite (u16b_be16 (lenN (value_bytes p))) by lia. reflexivity.
Qed.

(* ================================================================================================ *)
(* SVCB / HTTPS                                                                                      *)
(* ================================================================================================ *)
Definition svcb_R (prio : N) (target : name) (params : list svcparam) (pre w : bytes) : Prop :=
  exists wt : bytes, renders_name (pre ++ be16 prio) target wt /\
    w = be16 prio ++ wt ++ (if prio =? 0 then [] else concat (map Spec.Render.param_wire (map norm params))).

Lemma ren_svcb_body (prio : N) (target : name) (params : list svcparam) :
  prio < 65536 -> name_wf target = true -> forallb param_wfb params = true ->
  encP (svcb_body prio target params) /\ renP (svcb_body prio target params) (svcb_R prio target params).
Proof.
  intros Hprio Htgt Hpw.
  set (pbody := if negb (prio =? 0) then emap enc_service_parameter params else eret tt).
  assert (encP pbody) as Ppb.
  { unfold pbody. destruct (negb (prio =? 0)); [|apply encP_ret].
    apply encP_appends. intros st st' E0. apply emap_param_ok_inv in E0. destruct E0 as [_ ->]. eexists. reflexivity. }
  assert (renP pbody (fun _ w => w = if prio =? 0 then [] else concat (map Spec.Render.param_wire (map norm params)))) as Rpb.
  { unfold pbody. destruct (prio =? 0); cbn [negb]; [apply renP_ret; reflexivity|].
    intros st mask st' HI E0. apply emap_param_ok_inv in E0. destruct E0 as [Hfit ->].
    exists (concat (map SvcbEnc.param_wire params)). split; [reflexivity|]. intros pre _ _.
    rewrite map_map. apply concat_map_ext.
    rewrite Forall_forall in *. rewrite forallb_forall in Hpw. intros p Hp.
    apply param_wire_norm; [apply Hpw|apply Hfit]; exact Hp. }
  unfold svcb_body. fold pbody. split.
  { apply encP_bind; [apply encP_put|]. apply encP_bind; [apply encP_name_wf, Htgt|exact Ppb]. }
  apply (renP_bind _ _ (fun _ w => w = be16 prio)
           (fun pre w => exists wt, renders_name pre target wt /\
              w = wt ++ (if prio =? 0 then [] else concat (map Spec.Render.param_wire (map norm params))))).
  - apply encP_put.
  - apply (renP_emits _ _ _ (emits_eu16 prio)). intros _. apply u16b_be16, Hprio.
  - apply (renP_bind _ _ (fun pre w => renders_name pre target w)
             (fun _ w => w = if prio =? 0 then [] else concat (map Spec.Render.param_wire (map norm params)))).
    + apply encP_name_wf, Htgt.
    + apply renP_name, name_wf_ok, Htgt.
    + exact Rpb.
    + intros pre w1 w2 Hw1 ->. exists w1. split; [exact Hw1|reflexivity].
  - intros pre w1 w2 -> (wt & Hwt & ->). exists wt. split; [exact Hwt|reflexivity].
Qed.

Theorem ren_rr_svcb (r : rr) : svcb_rr_wf r = true ->
  renP (enc_rr r) (fun pre w => renders_rr pre (norm_rr r) w).
Proof.
  unfold svcb_rr_wf. intros H. apply andb_true_iff in H. destruct H as [H Hd].
  apply andb_true_iff in H. destruct H as [H Hcl]. apply andb_true_iff in H. destruct H as [Hc Hty].
  destruct (common_wf_inv r Hc) as (Hn & Htt & Httl). apply N.eqb_eq in Hcl.
  assert (r_type r = 64 \/ r_type r = 65) as Ht by lia.
  destruct (r_data r) as [| | |prio target params] eqn:Ed; try discriminate.
  apply andb_true_iff in Hd. destruct Hd as [Hd Halias]. apply andb_true_iff in Hd. destruct Hd as [Hd Hks].
  apply andb_true_iff in Hd. destruct Hd as [Hd Hpw]. apply andb_true_iff in Hd. destruct Hd as [Hprio Htgt].
  destruct (ren_svcb_body prio target params ltac:(lia) Htgt Hpw) as [Pb Rb].
  apply (renP_ext (rr_frame_enc (r_name r) (r_type r) CLASS_IN (r_ttl r) (svcb_body prio target params))).
  { intros st. apply enc_rr_svcb_frame; assumption. }
  eapply renP_weaken; [|apply (ren_rr_frame (r_name r) (r_type r) CLASS_IN (r_ttl r) _ _ Hn
                                  (type_table_bound _ Htt) ltac:(unfold CLASS_IN; lia) Httl Pb Rb)].
  cbv beta. intros pre w (wn & wd & Hwn & Hl & -> & (wt & Hwt & Ewd)).
  assert (frame_head (r_type r) CLASS_IN (r_ttl r) (lenN wd) = rr_head (norm_rr r) (lenN wd)) as Eh.
  { unfold frame_head, rr_head, wire_class, wire_ttl, norm_rr. cbn [r_type r_class r_ttl r_data].
    rewrite Ed, Hcl. reflexivity. }
  rewrite Eh in *.
  apply (RR_record _ (norm_rr r)); [exact Hwn|].
  subst wd. unfold norm_rr at 2 3. cbn [r_type r_data]. rewrite Ed. cbn [norm_rdata].
  destruct (prio =? 0) eqn:Ep.
  - apply N.eqb_eq in Ep. subst prio. cbn [negb orb] in Halias.
    destruct params as [|p0 ps0]; [|discriminate]. cbn [map] in *. rewrite app_nil_r in Hwt |- *.
    apply RD_svcb_alias; assumption.
  - apply N.eqb_neq in Ep.
    apply (RD_svcb_service _ _ prio target (map norm params) (map norm params) wt Ht Ep Hwt).
    apply Permutation_refl.
Qed.

(* ================================================================================================ *)
(* Every supported record                                                                            *)
(* ================================================================================================ *)
Lemma norm_rr_fields (r : rr) : (forall p t ps, r_data r <> RSvcb p t ps) -> norm_rr r = r.
Proof.
  intro H. apply norm_rr_id. destruct (r_data r) as [| | |p t ps]; try reflexivity.
  exfalso. exact (H p t ps eq_refl).
Qed.

Theorem ren_rr (r : rr) : rr_wf r = true -> renP (enc_rr r) (fun pre w => renders_rr pre (norm_rr r) w).
Proof.
  unfold rr_wf. destruct (lookup (r_type r) enc_dispatch) as [[ec f|[| | |]]|] eqn:El; intros H; try discriminate.
  - assert (norm_rr r = r) as ->; [|apply ren_rr_plain, H].
    apply norm_rr_fields. intros p t ps Ed. unfold plain_wf in H. rewrite El, Ed in H.
    rewrite andb_false_r in H. discriminate.
  - assert (norm_rr r = r) as ->; [|apply ren_rr_opt, H].
    apply norm_rr_fields. intros p t ps Ed. unfold opt_rr_wf in H. rewrite Ed in H.
    rewrite andb_false_r in H. discriminate.
  - assert (norm_rr r = r) as ->; [|apply ren_rr_apl, H].
    apply norm_rr_fields. intros p t ps Ed. unfold apl_rr_wf in H. rewrite Ed in H.
    rewrite andb_false_r in H. discriminate.
  - apply ren_rr_svcb, H.
  - apply ren_rr_svcb, H.
Qed.
