(* C05 — milestone 4: plain records (WrFields / RdFields) through enc_rr and rr_. *)
From DNS Require Import Model.Dec Model.Enc Spec.Names
  Proofs.ListN Proofs.NameLayer Proofs.NameLoop Proofs.NameMain
  Proofs.EncTotal Proofs.EncLimits Proofs.EncTyped
  Proofs.DecBase Proofs.DecName Proofs.DecNameSound Proofs.DecNameComplete
  Proofs.OptBase Proofs.SvcbDec Proofs.SvcbEnc Proofs.RtBase Proofs.RtPrim Proofs.RtFields.
Require Import ZArith ZifyBool ZifyN ZifyNat.
Local Open Scope N_scope.
Ltac Zify.zify_post_hook ::= Z.div_mod_to_equations.

(* ---- one value per value-carrying field of the decode table, in that order ---- *)
Fixpoint vals_wf (ks : list fk) (vals : list fv) : bool :=
  match ks, vals with
  | [], [] => true
  | k :: ks', v :: vs' => fv_wf k v && vals_wf ks' vs'
  | _, _ => false
  end.

(* shape of a field list: constants fit an octet, no unknown kind, window-draining kinds come last *)
Fixpoint shape_ok (f : list (string * fk)) : bool :=
  match f with
  | [] => true
  | p :: r => (match snd p with FConst8 c _ => c <? 256 | FUnknown => false | _ => true end)
              && (negb (fk_tail (snd p)) || is_nil r) && shape_ok r
  end.

Fixpoint nodupb (l : list string) : bool :=
  match l with [] => true | x :: r => negb (existsb (String.eqb x) r) && nodupb r end.
Lemma nodupb_NoDup (l : list string) : nodupb l = true -> NoDup l.
Proof.
  induction l as [|x r IH]; cbn [nodupb]; intros H; constructor.
  - apply andb_true_iff in H. destruct H as [H _]. apply negb_true_iff in H.
    intro Hin. assert (existsb (String.eqb x) r = true) as Hc; [|congruence].
    apply existsb_exists. exists x. split; [exact Hin|apply String.eqb_refl].
  - apply IH. apply andb_true_iff in H. exact (proj2 H).
Qed.

Lemma assoc_mid (nm : string) : forall (pn : list string) (pv : list fv) (rest : list string) (v : fv) (vs : list fv),
  length pn = length pv -> ~ In nm pn -> assoc nm (pn ++ nm :: rest) (pv ++ v :: vs) = Some v.
Proof.
  induction pn as [|n pn IH]; intros [|v0 pv] rest v vs HL Hni; cbn [length] in HL; try discriminate.
  - cbn [app assoc]. rewrite String.eqb_refl. reflexivity.
  - cbn [app assoc]. destruct (String.eqb nm n) eqn:E.
    + apply String.eqb_eq in E. subst n. exfalso. apply Hni. left. reflexivity.
    + apply IH; [lia|]. intro Hin. apply Hni. right. exact Hin.
Qed.

Lemma fields_link : forall (f : list (string * fk)) (pn : list string) (pv vs : list fv),
  length pn = length pv ->
  (forall nm, In nm (value_names f) -> ~ In nm pn) ->
  NoDup (value_names f) -> shape_ok f = true ->
  vals_wf (map snd (filter (fun p => has_value (snd p)) f)) vs = true ->
  fields_wf (pn ++ value_names f) (pv ++ vs) f = true /\ pickv (pn ++ value_names f) (pv ++ vs) f = vs.
Proof.
  induction f as [|[nm k] r IH]; intros pn pv vs HL Hfresh Hnd Hsh Hv.
  - cbn [filter map vals_wf] in Hv. destruct vs; [|discriminate]. split; reflexivity.
  - cbn [shape_ok snd] in Hsh. apply andb_true_iff in Hsh. destruct Hsh as [Hsh Hsh3].
    apply andb_true_iff in Hsh. destruct Hsh as [Hsh1 Hsh2].
    unfold value_names in *. cbn [filter snd] in *.
    destruct (has_value k) eqn:Eh.
    + cbn [map fst snd] in *. destruct vs as [|v vs']; cbn [vals_wf] in Hv; [discriminate|].
      apply andb_true_iff in Hv. destruct Hv as [Hv1 Hv2].
      inversion Hnd as [|? ? Hni Hnd']; subst.
      assert (~ In nm pn) as Hnp by (apply Hfresh; left; reflexivity).
      pose proof (assoc_mid nm pn pv (map fst (filter (fun p => has_value (snd p)) r)) v vs' HL Hnp) as Ha.
      destruct (IH (pn ++ [nm]) (pv ++ [v]) vs') as [I1 I2].
      * rewrite !app_length. cbn [length]. lia.
      * intros x Hx Hin. apply in_app_or in Hin. destruct Hin as [Hin|[<-|[]]].
        -- apply (Hfresh x); [right; exact Hx|exact Hin].
        -- exact (Hni Hx).
      * exact Hnd'.
      * exact Hsh3.
      * exact Hv2.
      * rewrite <- !app_assoc in I1, I2. cbn [app] in I1, I2.
        cbn [fields_wf pickv]. unfold field_wf, pick1. cbn [fst snd]. rewrite Eh, Ha, I1, I2, Hsh2.
        split; [|reflexivity]. rewrite !andb_true_r.
        destruct k; try exact Hv1; discriminate.
    + destruct k; try discriminate. cbn [map] in *.
      destruct (IH pn pv vs HL Hfresh Hnd Hsh3 Hv) as [I1 I2].
      cbn [fields_wf pickv]. unfold field_wf, pick1. cbn [fst snd has_value]. rewrite I1, I2, Hsh2, Hsh1.
      split; reflexivity.
Qed.

(* ---- the generated tables agree: same field list on both sides, matching class rule ---- *)
Definition class_match (ec : encclass) (ck : classrule) : bool :=
  match ec, ck with ECField, CKAny => true | ECIn, CKIn _ => true | _, _ => false end.

Definition entry_agrees (t : N) : Prop :=
  match lookup t enc_dispatch with
  | Some (WrFields ec f) =>
    exists ck, lookup t dec_dispatch = Some (RdFields ck f) /\ class_match ec ck = true /\
               shape_ok f = true /\ nodupb (value_names f) = true
  | Some (WrSpecial sp) => lookup t dec_dispatch = Some (RdSpecial sp)
  | None => True
  end.

Lemma table_agrees : Forall (fun p : N * writer => entry_agrees (fst p)) enc_dispatch.
Proof.
  unfold enc_dispatch.
  repeat (apply Forall_cons;
          [vm_compute; first [reflexivity | eexists; split; [reflexivity|split; [reflexivity|split; reflexivity]]]|]).
  apply Forall_nil.
Qed.

Lemma entry_agrees_lookup (t : N) (w : writer) : lookup t enc_dispatch = Some w -> entry_agrees t.
Proof.
  intros H. apply lookup_in in H.
  exact (proj1 (Forall_forall _ _) table_agrees (t, w) H).
Qed.

Lemma in_table_bound (t : list (string * N)) (B v : N) :
  forallb (fun p => snd p <? B) t = true -> in_table t v = true -> v < B.
Proof.
  intros Hb Hi. unfold in_table in Hi. apply existsb_exists in Hi. destruct Hi as (p & Hp & He).
  rewrite forallb_forall in Hb. specialize (Hb p Hp). lia.
Qed.
Lemma class_table_bound (c : N) : in_table Class_table c = true -> c < 65536.
Proof. apply in_table_bound. vm_compute. reflexivity. Qed.
Lemma type_table_bound (c : N) : in_table Type_table c = true -> c < 65536.
Proof. apply in_table_bound. vm_compute. reflexivity. Qed.

(* ---- the record frame: owner, TYPE, CLASS, TTL, RDLENGTH slot ---- *)
Definition rr_frame_enc (nm : name) (ty cls ttl : N) (body : EM unit) : EM unit :=
  _ <-- enc_domain_name nm ;; _ <-- eu16 ty ;; _ <-- eu16 cls ;; _ <-- eu32 ttl ;; slot body.

Lemma reads_rr_type (ty : N) (r : bytes) : in_table Type_table ty = true -> reads rr_type (u16b ty) r ty.
Proof. intros H. unfold rr_type. apply reads_code; [exact H|]. apply reads_u16, type_table_bound, H. Qed.

Lemma rt_rr_type (ty : N) : in_table Type_table ty = true -> decP false (eu16 ty) (fun _ => rr_type) (eq ty).
Proof.
  intros H. apply (decP_reads false (eu16 ty) rr_type (u16b ty) ty).
  - exact (emits_inv _ _ (emits_eu16 ty)).
  - intros r _. apply reads_rr_type, H.
Qed.

Lemma encP_put (b : bytes) : encP (put b).
Proof. apply encP_appends, appends_put. Qed.

Lemma encP_rr_frame (nm : name) (ty cls ttl : N) (body : EM unit) :
  name_wf nm = true -> encP body -> encP (rr_frame_enc nm ty cls ttl body).
Proof.
  intros Hn Hb. unfold rr_frame_enc.
  apply encP_bind; [apply encP_name_wf, Hn|].
  apply encP_bind; [apply encP_put|]. apply encP_bind; [apply encP_put|].
  apply encP_bind; [apply encP_put|]. apply encP_slot, Hb.
Qed.

Lemma rt_rr_frame (E : bool) (nm : name) (ty cls ttl : N) (body : EM unit) (R : name -> rr -> Prop) :
  name_wf nm = true -> in_table Type_table ty = true -> cls < 65536 -> ttl < 4294967296 ->
  encP body ->
  (forall owner, name_eqv owner nm -> decP true body (fun main => rr_body main ty owner cls ttl) (R owner)) ->
  decP E (rr_frame_enc nm ty cls ttl body) rr_ (fun r' => exists owner, name_eqv owner nm /\ R owner r').
Proof.
  intros Hn Hty Hcls Httl Pb Db. unfold rr_frame_enc.
  eapply decP_weaken; [|apply (decP_bind E _ _ domain_name
      (fun owner main => type_ <- rr_type ;; hclass <- u16 ;; ttl0 <- u32 ;; rd_length <- u16 ;;
                         with_sub rd_length (rr_body main type_ owner hclass ttl0))
      (fun v => name_eqv v nm) R)].
  - intros r' (owner & Ho & Hr). exists owner. split; assumption.
  - apply encP_name_wf, Hn.
  - apply rt_name, Hn.
  - apply encP_bind; [apply encP_put|]. apply encP_bind; [apply encP_put|].
    apply encP_bind; [apply encP_put|]. apply encP_slot, Pb.
  - intros owner Ho.
    eapply decP_weaken; [|apply (decP_bind E _ _ (fun _ => rr_type)
        (fun type_ main => hclass <- u16 ;; ttl0 <- u32 ;; rd_length <- u16 ;;
                           with_sub rd_length (rr_body main type_ owner hclass ttl0))
        (eq ty) (fun _ => R owner))].
    + intros r' (? & _ & Hr). exact Hr.
    + apply encP_put.
    + apply rt_rr_type, Hty.
    + apply encP_bind; [apply encP_put|]. apply encP_bind; [apply encP_put|]. apply encP_slot, Pb.
    + intros ? <-.
      eapply decP_weaken; [|apply (decP_bind E _ _ (fun _ => u16)
          (fun hclass main => ttl0 <- u32 ;; rd_length <- u16 ;;
                              with_sub rd_length (rr_body main ty owner hclass ttl0))
          (eq cls) (fun _ => R owner))].
      * intros r' (? & _ & Hr). exact Hr.
      * apply encP_put.
      * apply rt_u16, Hcls.
      * apply encP_bind; [apply encP_put|]. apply encP_slot, Pb.
      * intros ? <-.
        eapply decP_weaken; [|apply (decP_bind E _ _ (fun _ => u32)
            (fun ttl0 main => rd_length <- u16 ;; with_sub rd_length (rr_body main ty owner cls ttl0))
            (eq ttl) (fun _ => R owner))].
        -- intros r' (? & _ & Hr). exact Hr.
        -- apply encP_put.
        -- apply rt_u32, Httl.
        -- apply encP_slot, Pb.
        -- intros ? <-. apply (decP_slot E body (fun main => rr_body main ty owner cls ttl)); [exact Pb|].
           apply Db, Ho.
Qed.

(* ================================================================================================ *)
(* Equivalence of records up to what compression may change                                          *)
(* ================================================================================================ *)
From DNS Require Import Proofs.SvcbRound.

Definition rdata_eqv (a b : rdata) : Prop :=
  match a, b with
  | RFields x, RFields y => fvs_eqv x y
  | RSvcb p t ps, RSvcb p' t' ps' => p = p' /\ name_eqv t t' /\ map norm ps = map norm ps'
  | _, _ => a = b
  end.
Definition rr_eqv (a b : rr) : Prop :=
  r_type a = r_type b /\ name_eqv (r_name a) (r_name b) /\ r_class a = r_class b /\
  r_ttl a = r_ttl b /\ rdata_eqv (r_data a) (r_data b).

(* ================================================================================================ *)
(* Plain records                                                                                     *)
(* ================================================================================================ *)
Definition rr_common_wf (r : rr) : bool :=
  name_wf (r_name r) && in_table Type_table (r_type r) && (r_ttl r <? 4294967296).

Definition plain_wf (r : rr) : bool :=
  rr_common_wf r &&
  match lookup (r_type r) enc_dispatch, r_data r with
  | Some (WrFields ec _), RFields vals =>
    vals_wf (map snd (dec_value_fields (r_type r))) vals &&
    match ec with ECField => in_table Class_table (r_class r) | ECIn => r_class r =? 1 end
  | _, _ => false
  end.

Lemma class_in_table : in_table Class_table 1 = true. Proof. vm_compute. reflexivity. Qed.

Lemma class_rule_pure (ec : encclass) (ck : classrule) (c : N) :
  class_match ec ck = true ->
  (match ec with ECField => in_table Class_table c | ECIn => c =? 1 end) = true ->
  forall s, class_rule ck (match ec with ECField => c | ECIn => CLASS_IN end) s = DOk c s.
Proof.
  intros Hm Hc s. destruct ec; destruct ck; try discriminate; cbn [class_rule].
  - unfold get_class. rewrite Hc. reflexivity.
  - apply N.eqb_eq in Hc. subst c. unfold get_class, bind, CLASS_IN. rewrite class_in_table. reflexivity.
Qed.

Lemma common_wf_inv (r : rr) : rr_common_wf r = true ->
  name_wf (r_name r) = true /\ in_table Type_table (r_type r) = true /\ r_ttl r < 4294967296.
Proof.
  unfold rr_common_wf. intros H. apply andb_true_iff in H. destruct H as [H H3].
  apply andb_true_iff in H. destruct H as [H1 H2]. split; [exact H1|]. split; [exact H2|lia].
Qed.

Theorem rt_rr_plain (E : bool) (r : rr) : plain_wf r = true ->
  encP (enc_rr r) /\ decP E (enc_rr r) rr_ (fun r' => rr_eqv r' r).
Proof.
  unfold plain_wf. intros H. apply andb_true_iff in H. destruct H as [Hc H].
  destruct (common_wf_inv r Hc) as (Hn & Hty & Httl).
  destruct (lookup (r_type r) enc_dispatch) as [[ec f|sp]|] eqn:El; try discriminate.
  destruct (r_data r) as [vals| | |] eqn:Ed; try discriminate.
  apply andb_true_iff in H. destruct H as [Hv Hcl].
  pose proof (entry_agrees_lookup _ _ El) as Ha. unfold entry_agrees in Ha. rewrite El in Ha.
  destruct Ha as (ck & Hdec & Hcm & Hsh & Hnd).
  set (cls := match ec with ECField => r_class r | ECIn => CLASS_IN end).
  assert (enc_rr r = rr_frame_enc (r_name r) (r_type r) cls (r_ttl r)
                       (write_fields (dec_value_names (r_type r)) vals f)) as Eenc.
  { unfold enc_rr. rewrite El, Ed. reflexivity. }
  rewrite Eenc.
  assert (dec_value_names (r_type r) = value_names f) as Evn by (unfold dec_value_names; rewrite Hdec; reflexivity).
  assert (dec_value_fields (r_type r) = filter (fun p => has_value (snd p)) f) as Evf
    by (unfold dec_value_fields; rewrite Hdec; reflexivity).
  rewrite Evf in Hv. rewrite Evn.
  destruct (fields_link f [] [] vals eq_refl (fun _ _ Hin => Hin) (nodupb_NoDup _ Hnd) Hsh Hv) as [Hfw Hpick].
  cbn [app] in Hfw, Hpick.
  destruct (rt_fields (value_names f) vals f Hfw) as [Pf Df].
  assert (cls < 65536) as Hcls.
  { unfold cls. destruct ec; [apply class_table_bound; exact Hcl|unfold CLASS_IN; lia]. }
  split; [apply encP_rr_frame; assumption|].
  eapply decP_weaken; [|apply (rt_rr_frame E (r_name r) (r_type r) cls (r_ttl r) _
      (fun owner r' => exists vs, fvs_eqv vs vals /\
         r' = {| r_type := r_type r; r_name := owner; r_class := r_class r; r_ttl := r_ttl r; r_data := RFields vs |}));
      try assumption].
  - intros r' (owner & Ho & vs & Hvs & ->). unfold rr_eqv. cbn [r_type r_name r_class r_ttl r_data].
    rewrite Ed. cbn [rdata_eqv]. split; [reflexivity|]. split; [exact Ho|]. split; [reflexivity|]. split; [reflexivity|exact Hvs].
  - intros owner Ho. unfold rr_body. rewrite Hdec.
    apply (decP_pure true _ (class_rule ck cls) (r_class r)
             (fun c main => vs <- read_fields main f ;;
                            ret {| r_type := r_type r; r_name := owner; r_class := c; r_ttl := r_ttl r; r_data := RFields vs |})).
    + apply class_rule_pure; assumption.
    + eapply decP_weaken; [|apply (decP_map true _ (fun main => read_fields main f)
          (fun vs => {| r_type := r_type r; r_name := owner; r_class := r_class r; r_ttl := r_ttl r; r_data := RFields vs |})), Df].
      intros r' (vs & Hvs & ->). exists vs. rewrite Hpick in Hvs. split; [exact Hvs|reflexivity].
Qed.

From DNS Require Import Proofs.EncBytes.
Lemma vals_wf_bytes_ok : forall (ks : list fk) (vals : list fv), vals_wf ks vals = true -> Forall fv_bytes_ok vals.
Proof.
  induction ks as [|k ks IH]; intros [|v vals] H; cbn [vals_wf] in H; try discriminate; [constructor|].
  apply andb_true_iff in H. destruct H as [H1 H2]. constructor; [eapply fv_wf_bytes_ok; exact H1|apply IH; exact H2].
Qed.

Lemma plain_wf_bytes_ok (r : rr) : plain_wf r = true -> rr_bytes_ok r.
Proof.
  unfold plain_wf. intros H. apply andb_true_iff in H. destruct H as [Hc H].
  destruct (common_wf_inv r Hc) as (Hn & _). split; [apply name_wf_bytes_ok, Hn|].
  destruct (lookup (r_type r) enc_dispatch) as [[ec f|sp]|]; try discriminate.
  destruct (r_data r) as [vals| | |]; try discriminate. cbn [rdata_bytes_ok].
  apply andb_true_iff in H. destruct H as [Hv _]. eapply vals_wf_bytes_ok. exact Hv.
Qed.

(* ---- size of what a record writer appends (needed for the stand-alone entry points) ---- *)
Lemma name_size (n : name) (st : est) (mask : list bool) (st' : est) :
  InvM st mask -> name_wf n = true -> enc_domain_name n st = EOk tt st' ->
  lenN (e_buf st') <= lenN (e_buf st) + 255 /\ InvM st' (mask ++ repeat true (length (wrote st st'))).
Proof.
  intros HI Hn E. pose proof (name_wf_ok n Hn) as Hok.
  destruct (enc_domain_name_spec st mask n HI Hok) as [(s' & w & Hrun & Hb & _ & Hw2 & _ & HI')|(k & Hf & _)].
  - rewrite Hrun in E. injection E as <-. rewrite (wrote_app st s' w Hb). split; [|exact HI'].
    rewrite Hb, ListN.lenN_app. destruct Hok as [_ Hwl]. lia.
  - rewrite Hf in E. discriminate.
Qed.

Lemma frame_size (nm : name) (ty cls ttl : N) (body : EM unit) (st : est) (mask : list bool) (st' : est) :
  InvM st mask -> name_wf nm = true -> encP body ->
  rr_frame_enc nm ty cls ttl body st = EOk tt st' -> lenN (e_buf st') <= lenN (e_buf st) + 65802.
Proof.
  intros HI Hn Pb E. unfold rr_frame_enc in E. unfold ebind at 1 in E.
  destruct (enc_domain_name nm st) as [[] s1|e|x|] eqn:E1; try discriminate.
  destruct (name_size nm st mask s1 HI Hn E1) as [Hs1 HI1].
  unfold eu16, eu32 in E. rewrite !ebind_put, !sput_sput in E.
  destruct (put_preserves s1 _ (u16b ty ++ u16b cls ++ u32b ttl) HI1) as (s2 & Hp & Hb2 & HI2).
  assert (s2 = sput s1 (u16b ty ++ u16b cls ++ u32b ttl)) as -> by (rewrite EncLimits.put_eq in Hp; congruence).
  destruct (slot_inv body _ _ st' HI2 Pb E) as (s3 & wb & mw & _ & _ & _ & Hlen & Hb & _).
  rewrite Hb, e_buf_sput, !ListN.lenN_app. change (lenN (u16b ty)) with 2. change (lenN (u16b cls)) with 2.
  change (lenN (u32b ttl)) with 4. change (lenN (u16b (lenN wb))) with 2. lia.
Qed.

Lemma plain_frame (r : rr) : plain_wf r = true ->
  exists nm ty cls ttl body, name_wf nm = true /\ encP body /\
    forall st, enc_rr r st = rr_frame_enc nm ty cls ttl body st.
Proof.
  unfold plain_wf. intros H. apply andb_true_iff in H. destruct H as [Hc H].
  destruct (common_wf_inv r Hc) as (Hn & Hty & Httl).
  destruct (lookup (r_type r) enc_dispatch) as [[ec f|sp]|] eqn:El; try discriminate.
  destruct (r_data r) as [vals| | |] eqn:Ed; try discriminate.
  apply andb_true_iff in H. destruct H as [Hv Hcl].
  pose proof (entry_agrees_lookup _ _ El) as Ha. unfold entry_agrees in Ha. rewrite El in Ha.
  destruct Ha as (ck & Hdec & Hcm & Hsh & Hnd).
  assert (dec_value_names (r_type r) = value_names f) as Evn by (unfold dec_value_names; rewrite Hdec; reflexivity).
  assert (dec_value_fields (r_type r) = filter (fun p => has_value (snd p)) f) as Evf
    by (unfold dec_value_fields; rewrite Hdec; reflexivity).
  rewrite Evf in Hv.
  destruct (fields_link f [] [] vals eq_refl (fun _ _ Hin => Hin) (nodupb_NoDup _ Hnd) Hsh Hv) as [Hfw _].
  cbn [app] in Hfw. destruct (rt_fields (value_names f) vals f Hfw) as [Pf _].
  exists (r_name r), (r_type r), (match ec with ECField => r_class r | ECIn => CLASS_IN end), (r_ttl r),
         (write_fields (value_names f) vals f).
  split; [exact Hn|]. split; [exact Pf|]. intros st. unfold enc_rr. rewrite El, Ed, Evn. reflexivity.
Qed.
