(* C02 — every decoded value is well formed (part 1): a value postcondition calculus on top of the
   safety predicate of Proofs/DecSafe.v, the primitives, names, the generic field reader. *)
From Coq Require Import ZArith ZifyBool ZifyN ZifyNat.
From DNS Require Import Model.Dec Model.Enc Proofs.DecBase Proofs.DecName Proofs.DecNameSpec Proofs.C12
  Proofs.DecSafe Proofs.DecTotal Proofs.SvcbDec
  Proofs.RtBase Proofs.RtPrim Proofs.RtFields Proofs.RtRecord.
Local Open Scope N_scope.
Ltac Zify.zify_post_hook ::= Z.div_mod_to_equations.

(* [valP Q m]: every value [m] returns from a well-formed state satisfies [Q] *)
Definition valP {A} (Q : A -> Prop) (m : DM A) : Prop :=
  forall s a s', dst_wf s -> m s = DOk a s' -> Q a.

Lemma valP_safeP {A} k (Q : A -> Prop) (m : DM A) : safeP k Q m -> valP Q m.
Proof.
  intros H s a s' W E. specialize (H s W). unfold okat in H. rewrite E in H. exact (proj2 (proj2 (proj2 H))).
Qed.
Lemma safe0_wf {A} (m : DM A) s a s' : safe0 m -> dst_wf s -> m s = DOk a s' -> dst_wf s'.
Proof. intros H W E. specialize (H s W). unfold okat in H. rewrite E in H. exact (proj1 H). Qed.

(* [wfP m]: a successful run ends in a well-formed state *)
Definition wfP {A} (m : DM A) : Prop := forall s a s', dst_wf s -> m s = DOk a s' -> dst_wf s'.
Lemma wfP_safe0 {A} (m : DM A) : safe0 m -> wfP m.
Proof. intros H s a s' W E. exact (safe0_wf m s a s' H W E). Qed.
Lemma wfP_bind {A B} (m : DM A) (f : A -> DM B) : wfP m -> (forall a, wfP (f a)) -> wfP (bind m f).
Proof.
  intros Hm Hf s b s2 W E. unfold bind in E. destruct (m s) as [a s1|e c|x|] eqn:E1; try discriminate.
  exact (Hf a s1 b s2 (Hm s a s1 W E1) E).
Qed.
Lemma wfP_ret {A} (a : A) : wfP (ret a).
Proof. intros s a' s' W E. unfold ret in E. injection E as _ <-. exact W. Qed.
Lemma wfP_many {A} (item : DM A) : wfP item -> forall (fuel : nat) (acc : list A), wfP (many fuel item acc).
Proof.
  intros Hi. induction fuel as [|f IH]; intros acc; [intros s a s' _ E; discriminate|].
  rewrite DecSafe.many_S. apply wfP_bind; [apply wfP_safe0, safe0_is_finished|]. intros [|]; [apply wfP_ret|].
  apply wfP_bind; [exact Hi|]. intros x. apply IH.
Qed.

Lemma valP_bind_w {A B} (Q : A -> Prop) (R : B -> Prop) (m : DM A) (f : A -> DM B) :
  wfP m -> valP Q m -> (forall a, Q a -> valP R (f a)) -> valP R (bind m f).
Proof.
  intros Hs Hm Hf s b s2 W E. unfold bind in E. destruct (m s) as [a s1|e c|x|] eqn:E1; try discriminate.
  exact (Hf a (Hm s a s1 W E1) s1 b s2 (Hs s a s1 W E1) E).
Qed.
Lemma valP_bind {A B} (Q : A -> Prop) (R : B -> Prop) (m : DM A) (f : A -> DM B) :
  safe0 m -> valP Q m -> (forall a, Q a -> valP R (f a)) -> valP R (bind m f).
Proof. intros Hs. apply valP_bind_w, wfP_safe0, Hs. Qed.
Lemma valP_true {A} (m : DM A) : valP (fun _ => True) m.
Proof. intros s a s' _ _. exact I. Qed.
Lemma valP_bind0 {A B} (R : B -> Prop) (m : DM A) (f : A -> DM B) :
  safe0 m -> (forall a, valP R (f a)) -> valP R (bind m f).
Proof. intros Hs Hf. apply (valP_bind (fun _ => True)); [exact Hs|apply valP_true|intros a _; apply Hf]. Qed.
Lemma valP_ret {A} (Q : A -> Prop) (a : A) : Q a -> valP Q (ret a).
Proof. intros H s a' s' _ E. unfold ret in E. injection E as <- _. exact H. Qed.
Lemma valP_fail {A} (Q : A -> Prop) e : valP Q (@fail A e).
Proof. intros s a s' _ E. discriminate. Qed.
Lemma valP_err {A} (Q : A -> Prop) (f : dst -> err) (g : dst -> N) : valP Q (fun s => @DErr A (f s) (g s)).
Proof. intros s a s' _ E. discriminate. Qed.
Lemma valP_weaken {A} (Q Q' : A -> Prop) (m : DM A) : (forall a, Q a -> Q' a) -> valP Q m -> valP Q' m.
Proof. intros HQ H s a s' W E. apply HQ. exact (H s a s' W E). Qed.
Lemma valP_conj {A} (Q Q' : A -> Prop) (m : DM A) : valP Q m -> valP Q' m -> valP (fun a => Q a /\ Q' a) m.
Proof. intros H1 H2 s a s' W E. split; [exact (H1 s a s' W E)|exact (H2 s a s' W E)]. Qed.
Lemma valP_lift {A} (Q : A -> Prop) (r : res A) : (forall a, r = Ok a -> Q a) -> valP Q (lift r).
Proof.
  intros H. destruct r as [a|e|x|]; cbn [lift]; [apply valP_ret, H; reflexivity|apply valP_fail| |];
    intros s a s' _ E; discriminate.
Qed.
Lemma valP_loop_fuel {B} (R : B -> Prop) (f : nat -> DM B) : (forall n, valP R (f n)) -> valP R (bind loop_fuel f).
Proof. intros H s b s' W E. unfold bind, loop_fuel in E. exact (H _ s b s' W E). Qed.

Lemma valP_with_sub {A} (Q : A -> Prop) (n : N) (m : DM A) :
  n < WFMAX -> valP Q m -> valP Q (with_sub n m).
Proof.
  intros Hn Hm s a s2 W E. unfold with_sub in E.
  pose proof (safeP_read n Hn s W) as R. unfold okat in R.
  destruct (read n s) as [b s1|e c|x|]; try discriminate. destruct R as (R1 & R2 & R3 & R4 & R5).
  set (cs := {| d_rest := b; d_off := 0; d_len := lenN b; d_cost := d_cost s1 |}) in *.
  assert (dst_wf cs) as Wc.
  { unfold dst_wf, cs. cbn [d_rest d_off d_len]. split; [lia|]. split; [lia|]. split; [unfold WFMAX; lia|exact R4]. }
  unfold bind in E. destruct (m cs) as [a0 c0|e c|x|] eqn:Em; try discriminate.
  pose proof (Hm cs a0 c0 Wc Em) as Ha.
  destruct (finished c0) as [[] c1|e c|x|]; try discriminate. unfold ret in E. injection E as <- _. exact Ha.
Qed.

Lemma valP_many {A} (Q : A -> Prop) (item : DM A) : safe0 item -> valP Q item ->
  forall (fuel : nat) (acc : list A), Forall Q acc -> valP (Forall Q) (many fuel item acc).
Proof.
  intros Hs Hi. induction fuel as [|f IH]; intros acc Hacc; [intros s a s' _ E; discriminate|].
  rewrite DecSafe.many_S. apply valP_bind0; [apply safe0_is_finished|]. intros [|].
  - apply valP_ret. apply Forall_rev. exact Hacc.
  - apply (valP_bind Q); [exact Hs|exact Hi|]. intros x Hx. apply IH. constructor; assumption.
Qed.

Lemma valP_many_loop {A B} (Q : A -> Prop) (R : B -> Prop) (item : DM A) (g : list A -> DM B) :
  safe0 item -> valP Q item -> (forall l, Forall Q l -> valP R (g l)) ->
  valP R (fuel <- loop_fuel ;; l <- many fuel item [] ;; g l).
Proof.
  intros Hs Hi Hg. apply valP_loop_fuel. intros n.
  apply (valP_bind_w (Forall Q)); [apply wfP_many, wfP_safe0, Hs|apply valP_many; [exact Hs|exact Hi|constructor]|exact Hg].
Qed.

(* ---- primitives ---- *)
Lemma valP_u8 : valP (fun b => b < 256) u8. Proof. exact (valP_safeP _ _ _ safeP_u8). Qed.
Lemma valP_u16 : valP (fun v => v < 65536) u16. Proof. exact (valP_safeP _ _ _ safeP_u16). Qed.

Lemma be_join_bound (l : bytes) : forall acc : N, bytes_ok l -> be_join l acc < (acc + 1) * 256 ^ lenN l.
Proof.
  induction l as [|b r IH]; intros acc H; cbn [be_join].
  - change (lenN (@nil N)) with 0. rewrite N.pow_0_r. lia.
  - inversion H as [|? ? Hb Hr]; subst. unfold is_byte in Hb. specialize (IH (acc * 256 + b) Hr).
    rewrite DecBase.lenN_cons, N.pow_add_r, N.pow_1_r. nia.
Qed.
Lemma be_bound (l : bytes) : bytes_ok l -> be l < 256 ^ lenN l.
Proof. intros H. pose proof (be_join_bound l 0 H). unfold be. lia. Qed.

Lemma valP_uint (k : N) : k < WFMAX -> valP (fun v => v < 256 ^ k) (uint k).
Proof.
  intros Hk. unfold uint.
  apply (valP_bind (fun b : bytes => bytes_ok b /\ lenN b = k));
    [exact (safeP_safe0 _ _ _ (safeP_read k Hk))|exact (valP_safeP _ _ _ (safeP_read k Hk))|].
  intros b [Hb Hl]. destruct (lenN b =? k); [|intros s a s' _ E; discriminate].
  apply valP_ret. rewrite <- Hl. apply be_bound, Hb.
Qed.
Lemma valP_u32 : valP (fun v => v < 4294967296) u32.
Proof. apply (valP_uint 4). unfold WFMAX. lia. Qed.
Lemma valP_u64 : valP (fun v => v < 18446744073709551616) u64.
Proof. apply (valP_uint 8). unfold WFMAX. lia. Qed.

Lemma valP_string : valP (fun b => str_wf b = true) string_.
Proof.
  unfold string_. apply (valP_bind (fun n => n < 256)); [apply safe0_u8|exact valP_u8|]. intros n Hn.
  assert (n < WFMAX) as Hw by (unfold WFMAX; lia).
  apply (valP_bind (fun b : bytes => bytes_ok b /\ lenN b = n));
    [exact (safeP_safe0 _ _ _ (safeP_read n Hw))|exact (valP_safeP _ _ _ (safeP_read n Hw))|].
  intros b [_ Hl]. destruct (utf8_valid b) eqn:Eu; [|apply valP_fail].
  apply valP_ret. unfold str_wf. rewrite Eu. cbn [andb]. lia.
Qed.

Lemma valP_vec : valP bytes_ok vec. Proof. exact (valP_safeP _ _ _ safeP_vec). Qed.

Lemma bytes_ok_okb (l : bytes) : bytes_ok l -> bytes_okb l = true.
Proof.
  unfold bytes_ok, bytes_okb. rewrite Forall_forall, forallb_forall. intros H x Hx.
  specialize (H x Hx). unfold is_byte in H. unfold is_byteb. lia.
Qed.

Lemma u16b_bytes_ok (v : N) : bytes_ok (u16b v).
Proof. unfold u16b. constructor; [unfold is_byte; lia|]. constructor; [unfold is_byte; lia|constructor]. Qed.

Lemma valP_ipv6 : valP (fun b : bytes => lenN b = 16 /\ bytes_ok b) ipv6_addr.
Proof.
  unfold ipv6_addr. do 8 (apply valP_bind0; [apply safe0_u16|intros ?]).
  apply valP_ret. split; [reflexivity|]. unfold bytes_ok. repeat (apply Forall_app; split; [apply u16b_bytes_ok|]). apply u16b_bytes_ok.
Qed.

Lemma valP_code (Q : N -> Prop) (t : list (string * N)) (er : etag) (rd : DM N) :
  safe0 rd -> valP Q rd -> valP (fun v => Q v /\ in_table t v = true) (code t er rd).
Proof.
  intros Hs H. unfold code. apply (valP_bind Q); [exact Hs|exact H|]. intros v Hv.
  destruct (in_table t v) eqn:E; [apply valP_ret; split; [exact Hv|exact E]|apply valP_fail].
Qed.

(* ---- names ---- *)
Section Main.
Variable main : bytes.
Hypothesis Hb : bytes_ok main.
Hypothesis Hm : lenN main < WFMAX.

Lemma legal_name_wf (n : name) : wire_len n <= 255 -> Forall DecName.label_ok n -> name_wf n = true.
Proof.
  intros Hw Hl. unfold name_wf. apply andb_true_iff. split; [|lia].
  apply forallb_forall. rewrite Forall_forall in Hl. intros l Hin. destruct (Hl l Hin) as (H1 & H2 & H3).
  unfold label_wf. rewrite H3, (bytes_ok_okb l (utf8_bytes_ok l H3)). cbn [andb]. lia.
Qed.

Lemma valP_domain_name : valP (fun n => name_wf n = true) (domain_name main).
Proof.
  intros s n s' W E. destruct (name_bounds main s n s' Hb Hm W E) as (_ & _ & _ & _ & Hw & Hl).
  apply legal_name_wf; assumption.
Qed.

(* ---- the generic field reader ---- *)
Definition field_post (k : fk) (vs : list fv) : Prop :=
  vals_wf (if has_value k then [k] else []) vs = true.

Lemma one_val (k : fk) (v : fv) : has_value k = true -> fv_wf k v = true -> field_post k [v].
Proof. intros Hh Hv. unfold field_post. rewrite Hh. cbn [vals_wf]. rewrite Hv. reflexivity. Qed.

Lemma alnum_lower (s : bytes) : forallb is_alnum s = true -> forallb is_lowalnum (map ascii_lower s) = true.
Proof.
  induction s as [|b s IH]; cbn [forallb map]; [reflexivity|]. intros H.
  apply andb_true_iff in H. destruct H as [H1 H2]. rewrite (IH H2), andb_true_r.
  unfold is_alnum, is_digit, is_upper, is_lower in H1. unfold is_lowalnum, is_digit, is_lower, ascii_lower.
  destruct ((65 <=? b) && (b <=? 90)) eqn:E; lia.
Qed.

Lemma valP_strings_loop : forall (fuel : nat) (acc : list bytes),
  Forall (fun b => str_wf b = true) acc ->
  valP (Forall (fun b => str_wf b = true)) (strings_loop fuel acc).
Proof.
  intros fuel acc Hacc s a s' W E. rewrite strings_loop_many in E.
  exact (valP_many _ string_ safe0_string valP_string fuel acc Hacc s a s' W E).
Qed.

Lemma valP_read_field (k : fk) : fk_ok k = true -> valP (field_post k) (read_field main k).
Proof.
  intros Hk. destruct k; try discriminate; cbn [read_field].
  - apply (valP_bind _ _ _ _ safe0_u8 valP_u8). intros v Hv. apply valP_ret, one_val; [reflexivity|cbn [fv_wf]; lia].
  - apply (valP_bind _ _ _ _ safe0_u16 valP_u16). intros v Hv. apply valP_ret, one_val; [reflexivity|cbn [fv_wf]; lia].
  - apply (valP_bind _ _ _ _ safe0_u32 valP_u32). intros v Hv. apply valP_ret, one_val; [reflexivity|cbn [fv_wf]; lia].
  - apply (valP_bind _ _ _ _ safe0_u64 valP_u64). intros v Hv. apply valP_ret, one_val; [reflexivity|cbn [fv_wf]; lia].
  - apply (valP_bind _ _ _ _ (safe0_domain_name main Hb Hm) valP_domain_name). intros n Hn.
    apply valP_ret, one_val; [reflexivity|exact Hn].
  - apply (valP_bind _ _ _ _ safe0_string valP_string). intros b Hs. apply valP_ret, one_val; [reflexivity|exact Hs].
  - apply (valP_bind _ _ _ _ safe0_vec valP_vec). intros b Hv. apply valP_ret, one_val; [reflexivity|apply bytes_ok_okb, Hv].
  - apply valP_bind0; [apply safe0_vec|]. intros b. destruct (utf8_valid b) eqn:E; [|apply valP_fail].
    apply valP_ret, one_val; [reflexivity|exact E].
  - apply (valP_bind _ _ _ _ safe0_u32 valP_u32). intros v Hv. apply valP_ret, one_val; [reflexivity|cbn [fv_wf]; lia].
  - apply (valP_bind _ _ _ _ safe0_ipv6 valP_ipv6). intros b [Hl Hbo].
    apply valP_ret, one_val; [reflexivity|]. cbn [fv_wf]. rewrite (bytes_ok_okb b Hbo). lia.
  - apply (valP_bind _ _ _ _ (safe0_code _ _ _ safe0_u8) (valP_code _ _ _ _ safe0_u8 valP_u8)). intros v [Hv Ht].
    apply valP_ret, one_val; [reflexivity|]. cbn [fv_wf]. rewrite Ht. lia.
  - apply (valP_bind _ _ _ _ (safe0_code _ _ _ safe0_u16) (valP_code _ _ _ _ safe0_u16 valP_u16)). intros v [Hv Ht].
    apply valP_ret, one_val; [reflexivity|]. cbn [fv_wf]. rewrite Ht. lia.
  - apply (valP_bind _ _ _ _ safe0_string valP_string). intros b Hs.
    apply (valP_bind (fun b' => b' = b /\ forallb is_digit b = true)); [apply safe0_psdn| |].
    + apply valP_lift. unfold psdn_try_from. intros a Ha. destruct (forallb is_digit b); [|discriminate].
      injection Ha as <-. split; reflexivity.
    + intros b' [-> Hd]. apply valP_ret, one_val; [reflexivity|]. cbn [fv_wf]. rewrite Hs, Hd. reflexivity.
  - apply (valP_bind _ _ _ _ safe0_string valP_string). intros b Hs.
    apply (valP_bind (fun b' => b' = b /\ forallb is_digit b = true)); [apply safe0_isdn| |].
    + apply valP_lift. unfold isdn_try_from. intros a Ha. destruct (forallb is_digit b); [|discriminate].
      injection Ha as <-. split; reflexivity.
    + intros b' [-> Hd]. apply valP_ret, one_val; [reflexivity|]. cbn [fv_wf]. rewrite Hs, Hd. reflexivity.
  - apply valP_bind0; [apply safe0_is_finished|]. intros [|]; [apply valP_ret, one_val; reflexivity|].
    apply (valP_bind _ _ _ _ safe0_string valP_string). intros b Hs.
    apply (valP_bind (fun b' => b' = b /\ forallb is_hexdigit b = true)); [apply safe0_sa| |].
    + apply valP_lift. unfold sa_try_from. intros a Ha. destruct (forallb is_hexdigit b); [|discriminate].
      injection Ha as <-. split; reflexivity.
    + intros b' [-> Hd]. apply valP_ret, one_val; [reflexivity|]. cbn [fv_wf]. rewrite Hs, Hd. reflexivity.
  - apply (valP_bind _ _ _ _ safe0_string valP_string). intros b Hs. cbv zeta.
    destruct ((1 <=? lenN b) && (lenN b <=? 256)) eqn:E; [|apply valP_fail].
    apply valP_ret, one_val; [reflexivity|]. cbn [fv_wf]. rewrite Hs. lia.
  - apply (valP_bind _ _ _ _ safe0_string valP_string). intros b Hs.
    apply (valP_bind (fun t => str_wf t = true /\ 1 <= lenN t /\ forallb is_lowalnum t = true)); [apply safe0_tag| |].
    + apply valP_lift. unfold tag_try_from. intros a Ha. destruct b as [|b0 b']; [discriminate|].
      destruct (forallb is_alnum (b0 :: b')) eqn:Ea; [|discriminate].
      assert (a = map ascii_lower (b0 :: b')) as -> by congruence. clear Ha.
      destruct (str_wf_inv _ Hs) as [Hu Hl].
      assert (utf8_valid (map ascii_lower (b0 :: b')) = true) as Hu' by (rewrite <- Hu; exact (utf8_fold (b0 :: b'))).
      assert (lenN (map ascii_lower (b0 :: b')) = lenN (b0 :: b')) as Hl' by (unfold lenN; rewrite map_length; reflexivity).
      split; [unfold str_wf; rewrite Hu', Hl'; cbn [andb]; lia|].
      split; [rewrite Hl', DecBase.lenN_cons; lia|apply alnum_lower, Ea].
    + intros t (H1 & H2 & H3). apply valP_ret, one_val; [reflexivity|]. cbn [fv_wf]. rewrite H1, H3. lia.
  - apply valP_loop_fuel. intros n.
    apply (valP_bind_w (Forall (fun b => str_wf b = true))).
    + intros s a s' W E. rewrite strings_loop_many in E.
      exact (wfP_many string_ (wfP_safe0 _ safe0_string) n [] s a s' W E).
    + apply valP_strings_loop. constructor.
    + intros l Hl. destruct l as [|b l']; [apply valP_fail|]. apply valP_ret, one_val; [reflexivity|].
      cbn [fv_wf is_nil negb andb]. apply forallb_forall. rewrite Forall_forall in Hl. exact Hl.
  - apply (valP_bind _ _ _ _ safe0_u16 valP_u16). intros v Hv.
    destruct (negb (N.land v DNSKEY_ZERO_MASK =? 0)) eqn:E; [apply valP_fail|].
    apply valP_ret, one_val; [reflexivity|]. cbn [fv_wf]. apply negb_false_iff in E. rewrite E. lia.
  - apply (valP_bind _ _ _ _ safe0_u8 valP_u8). intros x _. destruct (negb (x =? v)); [apply valP_fail|].
    apply valP_ret. reflexivity.
Qed.
End Main.
