(* C08, part 1: the encoder is total.  Every encoder function, from EVERY state and for EVERY value,
   either fails with an error (or EIllTyped) or succeeds having only APPENDED octets to the buffer:
   it never panics.  The two subtraction sites (length slots) are the interesting cases;
   the address writer (significant octets, at least a minimum) has no arithmetic that can fail. *)
From DNS Require Import Model.Dec Model.Enc Proofs.ListN.
Require Import ZArith ZifyBool ZifyN ZifyNat.
Local Open Scope N_scope.
Ltac Zify.zify_post_hook ::= Z.div_mod_to_equations.

(* ---- generated constants: these break when the Rust source changes ---- *)
Lemma OP_enc_addr_significant_val : OP_enc_addr_significant = CNe. Proof. reflexivity. Qed.
Lemma ENC_ADDR_SIGNIFICANT_ZERO_val : ENC_ADDR_SIGNIFICANT_ZERO = 0. Proof. reflexivity. Qed.
Lemma ENC_ADDR_SIGNIFICANT_NONE_val : ENC_ADDR_SIGNIFICANT_NONE = 0. Proof. reflexivity. Qed.
Lemma ENC_ADDR_SIGNIFICANT_INC_val : ENC_ADDR_SIGNIFICANT_INC = 1. Proof. reflexivity. Qed.
Lemma ENC_ADDR_TAKE_MAX_val : ENC_ADDR_TAKE_MAX = true. Proof. reflexivity. Qed.
Lemma ENC_ECS_LENGTH_OF_SOURCE_val : ENC_ECS_LENGTH_OF_SOURCE = true. Proof. reflexivity. Qed.
Lemma ENC_ECS_LENGTH_ADD_val : ENC_ECS_LENGTH_ADD = 7. Proof. reflexivity. Qed.
Lemma ENC_ECS_LENGTH_DIV_val : ENC_ECS_LENGTH_DIV = 8. Proof. reflexivity. Qed.
Lemma ENC_APL_MINIMUM_LENGTH_val : ENC_APL_MINIMUM_LENGTH = 0. Proof. reflexivity. Qed.
Lemma OP_apl_len_val : OP_apl_len = CLt. Proof. reflexivity. Qed.
Lemma APL_NEGATION_MASK_val : APL_NEGATION_MASK = 128. Proof. reflexivity. Qed.

(* ---- list facts ---- *)
Lemma takeN_app_exact {A} (a b : list A) : takeN (lenN a) (a ++ b) = a.
Proof.
  unfold takeN. rewrite to_nat_lenN, firstn_app, Nat.sub_diag, firstn_all. cbn [firstn]. apply app_nil_r.
Qed.
Lemma dropN_app_exact {A} (a c b : list A) n : n = lenN a + lenN c -> dropN n (a ++ c ++ b) = b.
Proof.
  intros ->. unfold dropN. rewrite app_assoc.
  replace (N.to_nat (lenN a + lenN c)) with (length (a ++ c)) by (rewrite app_length; unfold lenN; lia).
  rewrite skipn_app, Nat.sub_diag, skipn_all. reflexivity.
Qed.
Lemma patch_slot2 pre x y w v : patch (lenN pre) (u16b v) (pre ++ [x; y] ++ w) = pre ++ u16b v ++ w.
Proof.
  unfold patch. rewrite takeN_app_exact. do 2 f_equal. apply dropN_app_exact. reflexivity.
Qed.
Lemma patch_slot1 pre x w v : patch (lenN pre) (u8b v) (pre ++ [x] ++ w) = pre ++ u8b v ++ w.
Proof.
  unfold patch. rewrite takeN_app_exact. do 2 f_equal. apply dropN_app_exact. reflexivity.
Qed.

(* ---- the predicate ---- *)
(* [extQ Q m]: from every state, [m] does not panic, and on success the new buffer is the old one
   followed by some octets [w] with [Q w]. *)
Definition extQ {A} (Q : bytes -> Prop) (m : EM A) : Prop :=
  forall s, match m s with
            | EOk _ s' => exists w, e_buf s' = e_buf s ++ w /\ Q w
            | EPanic _ => False
            | _ => True
            end.
Definition ext {A} (m : EM A) : Prop := extQ (fun _ => True) m.

(* the formulation with a state invariant (here trivial) and buffer monotonicity *)
Definition e_ok (s : est) : Prop := True.
Definition nopanic {A} (m : EM A) : Prop :=
  forall s, e_ok s -> match m s with
                      | EPanic _ => False
                      | EOk _ s' => e_ok s' /\ lenN (e_buf s) <= lenN (e_buf s')
                      | _ => True
                      end.

Lemma extQ_weaken {A} (Q Q' : bytes -> Prop) (m : EM A) : (forall w, Q w -> Q' w) -> extQ Q m -> extQ Q' m.
Proof.
  intros HQ H s. specialize (H s). destruct (m s) as [a s'|e|x|]; try exact H.
  destruct H as (w & H1 & H2). exists w. split; [exact H1|apply HQ; exact H2].
Qed.
Lemma extQ_ext {A} Q (m : EM A) : extQ Q m -> ext m.
Proof. apply extQ_weaken. intros; exact I. Qed.

Lemma ext_nopanic {A} (m : EM A) : ext m -> nopanic m.
Proof.
  intros H s _. specialize (H s). destruct (m s) as [a s'|e|x|]; try exact H.
  destruct H as (w & -> & _). split; [exact I|]. rewrite lenN_app. lia.
Qed.

Lemma ext_pointwise {A} (m m' : EM A) : (forall s, m s = m' s) -> ext m -> ext m'.
Proof. intros E H s. rewrite <- E. apply H. Qed.

Lemma ext_ret {A} (a : A) : ext (eret a).
Proof. intros s. exists []. split; [cbn [eret]; symmetry; apply app_nil_r|exact I]. Qed.
Lemma ext_fail {A} e : ext (@efail A e).
Proof. intros s. exact I. Qed.
Lemma ext_ill {A} : ext (fun _ : est => @EIllTyped A).
Proof. intros s. exact I. Qed.
Lemma ext_err {A} e : ext (fun _ : est => @EErr A e).
Proof. intros s. exact I. Qed.

Lemma ext_bind {A B} (m : EM A) (f : A -> EM B) : ext m -> (forall a, ext (f a)) -> ext (ebind m f).
Proof.
  intros Hm Hf s. unfold ebind. specialize (Hm s). destruct (m s) as [a s1|e|x|]; try exact Hm.
  destruct Hm as (w1 & E1 & _). specialize (Hf a s1). destruct (f a s1) as [b s2|e|x|]; try exact Hf.
  destruct Hf as (w2 & E2 & _). exists (w1 ++ w2). split; [|exact I]. rewrite E2, E1, app_assoc. reflexivity.
Qed.

Lemma ext_put b : ext (put b).
Proof. intros s. exists b. split; [reflexivity|exact I]. Qed.
Lemma ext_eu8 n : ext (eu8 n). Proof. apply ext_put. Qed.
Lemma ext_eu16 n : ext (eu16 n). Proof. apply ext_put. Qed.
Lemma ext_eu32 n : ext (eu32 n). Proof. apply ext_put. Qed.
Lemma ext_eu64 n : ext (eu64 n). Proof. apply ext_put. Qed.
Lemma ext_buf_len : ext buf_len.
Proof. intros s. exists []. split; [cbn [buf_len]; symmetry; apply app_nil_r|exact I]. Qed.

Lemma ext_if {A} (b : bool) (x y : EM A) : ext x -> ext y -> ext (if b then x else y).
Proof. destruct b; auto. Qed.

Lemma ext_get_offset : ext get_offset.
Proof. unfold get_offset. apply ext_bind; [apply ext_buf_len|]. intros n. apply ext_if; [apply ext_ret|apply ext_fail]. Qed.

Lemma ext_estring b : ext (estring b).
Proof.
  unfold estring. cbv zeta. apply ext_if; [apply ext_fail|].
  apply ext_bind; [apply ext_eu8|]. intros _. apply ext_put.
Qed.

Lemma ext_emap {A} (f : A -> EM unit) l : (forall x, ext (f x)) -> ext (emap f l).
Proof.
  intros Hf. induction l as [|x r IH]; cbn [emap]; [apply ext_ret|].
  apply ext_bind; [apply Hf|]. intros _. exact IH.
Qed.

Create HintDb extdb.
#[export] Hint Resolve ext_ret ext_fail ext_ill ext_err ext_put ext_eu8 ext_eu16 ext_eu32 ext_eu64
  ext_buf_len ext_get_offset ext_estring ext_emap : extdb.

(* ---- 16-bit length slots ---- *)
(* what [set_length_index] does when the slot was created at the end of [pre] and [w] was
   appended since: it stores exactly [lenN w], or fails when that does not fit 16 bits *)
Lemma set_length_index_exact s pre x y w : e_buf s = pre ++ [x; y] ++ w ->
  set_length_index (lenN pre) s =
  if lenN w <? POW16
  then EOk tt {| e_buf := pre ++ u16b (lenN w) ++ w; e_idx := e_idx s; e_names := e_names s |}
  else EErr (XLength, [lenN w]).
Proof.
  intros Hb. unfold set_length_index, buf_len, ebind.
  assert (HL : lenN (e_buf s) = lenN pre + 2 + lenN w).
  { rewrite Hb, !lenN_app. replace (lenN [x; y]) with 2 by reflexivity. lia. }
  destruct (lenN (e_buf s) <? lenN pre + 2) eqn:E1; [apply N.ltb_lt in E1; lia|].
  cbv zeta. replace (lenN (e_buf s) - (lenN pre + 2)) with (lenN w) by lia.
  destruct (lenN w <? POW16) eqn:E2; [|reflexivity].
  unfold set_u16. cbv zeta.
  destruct (lenN pre + 2 - 1 <? lenN (e_buf s)) eqn:E3; [|apply N.ltb_ge in E3; lia].
  rewrite Hb, patch_slot2. reflexivity.
Qed.

Lemma create_length_index_exact s :
  create_length_index s = EOk (lenN (e_buf s)) {| e_buf := e_buf s ++ [0; 0]; e_idx := e_idx s; e_names := e_names s |}.
Proof. reflexivity. Qed.

(* a length-framed block *)
Definition framed (w : bytes) : Prop := exists v, w = u16b (lenN v) ++ v /\ lenN v <= 65535.

(* [closes li m]: [m] is the rest of a computation whose 16-bit slot was created at [li] *)
Definition closes (li : N) (m : EM unit) : Prop :=
  forall s pre w, e_buf s = pre ++ [0; 0] ++ w -> lenN pre = li ->
    match m s with
    | EOk _ s' => exists w', e_buf s' = pre ++ u16b (lenN w') ++ w' /\ lenN w' <= 65535
    | EPanic _ => False
    | _ => True
    end.

Lemma closes_set li : closes li (set_length_index li).
Proof.
  intros s pre w Hb <-. rewrite (set_length_index_exact s pre 0 0 w Hb).
  destruct (lenN w <? POW16) eqn:E; [|exact I].
  exists w. split; [reflexivity|]. apply N.ltb_lt in E. rewrite POW16_val in E. lia.
Qed.

Lemma closes_bind {A} li (m : EM A) (f : A -> EM unit) :
  ext m -> (forall a, closes li (f a)) -> closes li (ebind m f).
Proof.
  intros Hm Hf s pre w Hb Hli. unfold ebind. specialize (Hm s). destruct (m s) as [a s1|e|x|]; try exact Hm.
  destruct Hm as (w1 & E1 & _). apply (Hf a s1 pre (w ++ w1)); [|exact Hli].
  rewrite E1, Hb, <- !app_assoc. reflexivity.
Qed.

Lemma extQ_slot (f : N -> EM unit) : (forall li, closes li (f li)) -> extQ framed (ebind create_length_index f).
Proof.
  intros Hf s. unfold ebind. rewrite create_length_index_exact.
  match goal with |- match f _ ?s1 with _ => _ end => specialize (Hf (lenN (e_buf s)) s1 (e_buf s) []) end.
  cbn [e_buf] in Hf. specialize (Hf eq_refl eq_refl).
  match goal with |- match ?r with _ => _ end => destruct r as [a s'|e|x|] end; try exact Hf.
  destruct Hf as (w' & E & HL). exists (u16b (lenN w') ++ w'). split; [exact E|]. exists w'. split; [reflexivity|exact HL].
Qed.
Lemma ext_slot (f : N -> EM unit) : (forall li, closes li (f li)) -> ext (ebind create_length_index f).
Proof. intros H. eapply extQ_ext. apply extQ_slot. exact H. Qed.

(* chains of binds *)
Ltac ext_go :=
  lazymatch goal with
  | |- ext (ebind create_length_index _) => apply ext_slot; intros ?; closes_go
  | |- ext (ebind _ _) => apply ext_bind; [ext_go|intros ?; ext_go]
  | |- ext (if ?b then _ else _) => destruct b; ext_go
  | |- ext (match ?o with Some _ => _ | None => _ end) => destruct o; ext_go
  | |- _ => solve [auto with extdb]
  end
with closes_go :=
  lazymatch goal with
  | |- closes _ (set_length_index _) => apply closes_set
  | |- closes _ (ebind _ _) => apply closes_bind; [ext_go|intros ?; closes_go]
  end.

(* ---- domain names: no panic site at all, for arbitrary label lists ---- *)
Lemma ext_compress n : ext (compress n).
Proof.
  intros s. unfold compress. destruct (idx_lookup n (e_idx s)) as [[i r]|].
  - destruct (cmp_apply OP_compress_offset ENC_MAX_OFFSET i); [exact I|].
    destruct (cmp_apply OP_compress_rec r DOMAIN_NAME_MAX_RECURSION).
    + exists []. split; [symmetry; apply app_nil_r|exact I].
    + apply (ext_bind (eu16 (N.lor ENC_COMPRESSION_BITS i)) (fun _ => eret (Some r))); auto with extdb.
  - exists []. split; [symmetry; apply app_nil_r|exact I].
Qed.

Lemma ext_elabel l : ext (elabel l).
Proof. unfold elabel. ext_go. Qed.

Lemma ext_merge_index local r : ext (merge_index local r).
Proof.
  intros s. unfold merge_index. destruct (cmp_apply OP_merge_rec r DOMAIN_NAME_MAX_RECURSION); [exact I|].
  exists []. split; [symmetry; apply app_nil_r|exact I].
Qed.
#[export] Hint Resolve ext_compress ext_elabel ext_merge_index : extdb.

Lemma ext_enc_name_loop labels : forall local, ext (enc_name_loop labels local).
Proof.
  induction labels as [|l rest IH]; intros local; cbn [enc_name_loop].
  - ext_go.
  - apply ext_bind; [apply ext_compress|]. intros [r|]; [apply ext_merge_index|].
    apply ext_bind; [apply ext_elabel|]. intros index. apply IH.
Qed.

Lemma ext_log_name n : ext (log_name n).
Proof. intros s. exists []. split; [symmetry; apply app_nil_r|exact I]. Qed.

Lemma ext_enc_domain_name n : ext (enc_domain_name n).
Proof. unfold enc_domain_name. apply ext_bind; [apply ext_log_name|]. intros _. apply ext_enc_name_loop. Qed.
#[export] Hint Resolve ext_enc_domain_name : extdb.

(* ---- the address writer: the octets up to the last non-zero one, but at least a minimum ---- *)
Lemma dropN_S_cons {A} (n : N) (x : A) (l : list A) : dropN (n + 1) (x :: l) = dropN n l.
Proof. unfold dropN. replace (N.to_nat (n + 1)) with (S (N.to_nat n)) by lia. reflexivity. Qed.
Lemma nthN_S_cons {A} (n : N) (x : A) (l : list A) : nthN (n + 1) (x :: l) = nthN n l.
Proof. unfold nthN. replace (N.to_nat (n + 1)) with (S (N.to_nat n)) by lia. reflexivity. Qed.

(* octets.iter().rposition(|b| b != 0).map_or(0, |i| i + 1), as a recursion from the front *)
Lemma addr_significant_nil : addr_significant [] = 0.
Proof. unfold addr_significant. cbn [addr_rposition]. apply ENC_ADDR_SIGNIFICANT_NONE_val. Qed.
Lemma addr_significant_cons (b : N) (r : bytes) :
  addr_significant (b :: r) = if (addr_significant r =? 0) && (b =? 0) then 0 else addr_significant r + 1.
Proof.
  unfold addr_significant. cbn [addr_rposition].
  rewrite OP_enc_addr_significant_val, ENC_ADDR_SIGNIFICANT_ZERO_val, ENC_ADDR_SIGNIFICANT_NONE_val,
    ENC_ADDR_SIGNIFICANT_INC_val. cbn [cmp_apply].
  destruct (addr_rposition r) as [i|].
  - destruct (i + 1 =? 0) eqn:E; [apply N.eqb_eq in E; lia|]. reflexivity.
  - change (0 =? 0) with true. cbn [andb]. destruct (b =? 0); reflexivity.
Qed.

(* it is the index of the last non-zero octet plus one, 0 for the all-zero address *)
Lemma addr_significant_spec : forall l : bytes,
  addr_significant l <= lenN l /\
  forallb (N.eqb 0) (dropN (addr_significant l) l) = true /\
  (addr_significant l = 0 \/ exists x, nthN (addr_significant l - 1) l = Some x /\ x <> 0).
Proof.
  induction l as [|b r (IH1 & IH2 & IH3)].
  - rewrite addr_significant_nil. split; [reflexivity|]. split; [reflexivity|left; reflexivity].
  - rewrite addr_significant_cons, lenN_cons.
    destruct (addr_significant r =? 0) eqn:Ec; [apply N.eqb_eq in Ec|apply N.eqb_neq in Ec];
    destruct (b =? 0) eqn:Eb; [apply N.eqb_eq in Eb|apply N.eqb_neq in Eb| |]; cbn [andb].
    + split; [lia|]. split; [|left; reflexivity].
      rewrite Ec in IH2. change (dropN 0 r) with r in IH2. change (dropN 0 (b :: r)) with (b :: r).
      cbn [forallb]. rewrite IH2, Eb. reflexivity.
    + split; [lia|]. rewrite dropN_S_cons. split; [exact IH2|]. right. exists b.
      rewrite Ec. split; [reflexivity|exact Eb].
    + split; [lia|]. rewrite dropN_S_cons. split; [exact IH2|]. right.
      destruct IH3 as [IH3|(x & Hx1 & Hx2)]; [contradiction|]. exists x. split; [|exact Hx2].
      replace (addr_significant r + 1 - 1) with (addr_significant r - 1 + 1) by lia.
      rewrite nthN_S_cons. exact Hx1.
    + split; [lia|]. rewrite dropN_S_cons. split; [exact IH2|]. right.
      destruct IH3 as [IH3|(x & Hx1 & Hx2)]; [contradiction|]. exists x. split; [|exact Hx2].
      replace (addr_significant r + 1 - 1) with (addr_significant r - 1 + 1) by lia.
      rewrite nthN_S_cons. exact Hx1.
Qed.
Lemma addr_significant_le (l : bytes) : addr_significant l <= lenN l.
Proof. exact (proj1 (addr_significant_spec l)). Qed.

(* every octet dropped by a cut at or beyond it is zero, and it is the least such cut *)
Lemma addr_significant_dropped : forall (l : bytes) (k : N),
  addr_significant l <= k -> forallb (N.eqb 0) (dropN k l) = true.
Proof.
  induction l as [|b r IH]; intros k Hk.
  - unfold dropN. rewrite skipn_nil. reflexivity.
  - rewrite addr_significant_cons in Hk.
    destruct (addr_significant r =? 0) eqn:Ec; [apply N.eqb_eq in Ec|apply N.eqb_neq in Ec];
    destruct (b =? 0) eqn:Eb; cbn [andb] in Hk.
    + destruct (N.eq_dec k 0) as [->|Hk0].
      * change (dropN 0 (b :: r)) with (b :: r). cbn [forallb]. rewrite N.eqb_sym, Eb.
        apply (IH 0). lia.
      * replace k with (k - 1 + 1) by lia. rewrite dropN_S_cons. apply IH. lia.
    + replace k with (k - 1 + 1) by lia. rewrite dropN_S_cons. apply IH. lia.
    + replace k with (k - 1 + 1) by lia. rewrite dropN_S_cons. apply IH. lia.
    + replace k with (k - 1 + 1) by lia. rewrite dropN_S_cons. apply IH. lia.
Qed.
Lemma addr_significant_least : forall (l : bytes) (k : N),
  forallb (N.eqb 0) (dropN k l) = true -> addr_significant l <= k.
Proof.
  induction l as [|b r IH]; intros k Hz.
  - rewrite addr_significant_nil. lia.
  - rewrite addr_significant_cons.
    destruct (N.eq_dec k 0) as [->|Hk0].
    + change (dropN 0 (b :: r)) with (b :: r) in Hz. cbn [forallb] in Hz.
      apply andb_true_iff in Hz. destruct Hz as [Hb Hr]. apply N.eqb_eq in Hb. subst b.
      specialize (IH 0 Hr). assert (addr_significant r = 0) as -> by lia. reflexivity.
    + replace k with (k - 1 + 1) in Hz by lia. rewrite dropN_S_cons in Hz. specialize (IH (k - 1) Hz).
      destruct ((addr_significant r =? 0) && (b =? 0)); lia.
Qed.

(* (usize::from(source_prefix_length) + 7) / 8 *)
Lemma ecs_minimum_length_eq (src pfx : N) : ecs_minimum_length src pfx = (src + 7) / 8.
Proof.
  unfold ecs_minimum_length.
  rewrite ENC_ECS_LENGTH_OF_SOURCE_val, ENC_ECS_LENGTH_ADD_val, ENC_ECS_LENGTH_DIV_val. reflexivity.
Qed.

(* take(max(significant, minimum_length)): no arithmetic that could fail, a plain append *)
Lemma rr_address_with_length_eq (a : addr) (m : N) (s : est) :
  rr_address_with_length a m s = put (takeN (N.max (addr_significant (a_oct a)) m) (a_oct a)) s.
Proof. unfold rr_address_with_length. rewrite ENC_ADDR_TAKE_MAX_val. reflexivity. Qed.

Lemma rr_address_with_length_put a m : exists b, forall s, rr_address_with_length a m s = put b s.
Proof. eexists. intros s. apply rr_address_with_length_eq. Qed.

Lemma ext_rr_address_with_length a m : ext (rr_address_with_length a m).
Proof.
  destruct (rr_address_with_length_put a m) as (b & H).
  apply (ext_pointwise (put b)); [intros s; symmetry; apply H|apply ext_put].
Qed.
#[export] Hint Resolve ext_rr_address_with_length : extdb.

(* ---- generic field writer ---- *)
Lemma ext_write_field k v : ext (write_field k v).
Proof.
  destruct k; destruct v as [[n|n|b|l|[o|]]|]; unfold write_field; auto with extdb.
Qed.
#[export] Hint Resolve ext_write_field : extdb.

Lemma ext_write_fields names vals f : ext (write_fields names vals f).
Proof.
  induction f as [|[nm k] r IH]; cbn [write_fields]; [apply ext_ret|].
  apply ext_bind; [apply ext_write_field|]. intros _. exact IH.
Qed.
#[export] Hint Resolve ext_write_fields : extdb.

(* ---- EDNS options ---- *)
Lemma ext_enc_edns_option o : ext (enc_edns_option o).
Proof.
  destruct o as [e|c|n]; unfold enc_edns_option.
  - unfold enc_ecs. ext_go.
  - unfold enc_cookie. ext_go.
  - unfold enc_padding. ext_go.
Qed.
#[export] Hint Resolve ext_enc_edns_option : extdb.

(* ---- APL: the 8-bit length slot ---- *)
Lemma set_address_length_index_exact s pre x w neg : e_buf s = pre ++ [x] ++ w ->
  set_address_length_index neg (lenN pre) s =
  if lenN w <? 256 then
    if lenN w <? 128
    then EOk tt {| e_buf := pre ++ u8b (if neg then N.lor (lenN w) 128 else lenN w) ++ w;
                   e_idx := e_idx s; e_names := e_names s |}
    else EErr (XAPLAddressLength, [lenN w])
  else EErr (XLength, [lenN w]).
Proof.
  intros Hb. unfold set_address_length_index, buf_len, ebind.
  assert (HL : lenN (e_buf s) = lenN pre + 1 + lenN w).
  { rewrite Hb, !lenN_app. replace (lenN [x]) with 1 by reflexivity. lia. }
  destruct (lenN (e_buf s) <? lenN pre + 1) eqn:E1; [apply N.ltb_lt in E1; lia|].
  cbv zeta. replace (lenN (e_buf s) - (lenN pre + 1)) with (lenN w) by lia.
  destruct (lenN w <? 256) eqn:E2; [|reflexivity].
  rewrite OP_apl_len_val, APL_NEGATION_MASK_val. cbn [cmp_apply].
  destruct (lenN w <? 128) eqn:E3; [|reflexivity].
  unfold set_u8. cbv zeta.
  destruct (lenN pre + 1 - 1 <? lenN (e_buf s)) eqn:E4; [|apply N.ltb_ge in E4; lia].
  rewrite Hb, patch_slot1. reflexivity.
Qed.

Lemma ext_enc_apitem i : ext (enc_apitem i).
Proof.
  unfold enc_apitem. apply ext_bind; [apply ext_eu16|]. intros _. apply ext_bind; [apply ext_eu8|]. intros _.
  destruct (rr_address_with_length_put (i_addr i) ENC_APL_MINIMUM_LENGTH) as (b & Hput).
  intros s. unfold ebind at 1. cbn [buf_len]. unfold ebind at 1. cbn [eu8 put].
  unfold ebind. rewrite Hput. cbn [put e_buf e_idx e_names].
  rewrite (set_address_length_index_exact _ (e_buf s) (0 mod 256) b); [|cbn [e_buf]; rewrite <- app_assoc; reflexivity].
  destruct (lenN b <? 256); [|exact I]. destruct (lenN b <? 128); [|exact I].
  eexists. split; [reflexivity|exact I].
Qed.
#[export] Hint Resolve ext_enc_apitem : extdb.

(* ---- SVCB parameters ---- *)
Lemma ext_enc_service_parameter p : ext (enc_service_parameter p).
Proof.
  unfold enc_service_parameter. apply ext_bind; [apply ext_eu16|]. intros _.
  apply ext_slot. intros li. apply closes_bind; [|intros _; apply closes_set].
  destruct p; cbv zeta; ext_go.
Qed.
#[export] Hint Resolve ext_enc_service_parameter : extdb.

(* ---- records, questions, header, message ---- *)
Lemma ext_enc_rr r : ext (enc_rr r).
Proof.
  unfold enc_rr. destruct (lookup (r_type r) enc_dispatch) as [[ec f|sp]|]; [| |apply ext_ill].
  - destruct (r_data r); try apply ext_ill. ext_go.
  - destruct sp; destruct (r_data r); try apply ext_ill; ext_go.
Qed.

Lemma ext_enc_question q : ext (enc_question q).
Proof. unfold enc_question. ext_go. Qed.
Lemma ext_enc_flags f : ext (enc_flags f).
Proof. unfold enc_flags. ext_go. Qed.
Lemma ext_enc_count {A} (l : list A) : ext (enc_count l).
Proof. unfold enc_count. cbv zeta. ext_go. Qed.
#[export] Hint Resolve ext_enc_rr ext_enc_question ext_enc_flags ext_enc_count : extdb.

Lemma ext_enc_dns m : ext (enc_dns m).
Proof. unfold enc_dns. ext_go. Qed.

(* ---- entry points ---- *)
Lemma erun_no_panic m : ext m -> forall x, erun m <> Panic x.
Proof.
  intros H x. unfold erun. specialize (H e_init). destruct (m e_init) as [a s'|e|y|]; try discriminate. contradiction.
Qed.

Theorem enc_Dns_no_panic : forall m x, enc_Dns m <> Panic x.
Proof. intros m. apply erun_no_panic, ext_enc_dns. Qed.
Theorem enc_RR_no_panic : forall r x, enc_RR r <> Panic x.
Proof. intros r. apply erun_no_panic, ext_enc_rr. Qed.
Theorem enc_Question_no_panic : forall q x, enc_Question q <> Panic x.
Proof. intros q. apply erun_no_panic, ext_enc_question. Qed.
Theorem enc_Flags_no_panic : forall f x, enc_Flags f <> Panic x.
Proof. intros f. apply erun_no_panic, ext_enc_flags. Qed.
Theorem enc_DomainName_no_panic : forall n x, enc_DomainName n <> Panic x.
Proof. intros n. apply erun_no_panic, ext_enc_domain_name. Qed.

(* the same in the state-invariant formulation: from every state, for every value *)
Theorem enc_dns_nopanic m : nopanic (enc_dns m).
Proof. apply ext_nopanic, ext_enc_dns. Qed.
Theorem enc_rr_nopanic r : nopanic (enc_rr r).
Proof. apply ext_nopanic, ext_enc_rr. Qed.
