(* C10, relocation, part 4: the theorems.  A stand-alone element encoding is what the element
   occupies as the first element of a message: the same octets for a question (a single name never
   holds a pointer), the same octets up to the shift of the pointer offsets by the 12 header octets
   for a record. *)
From DNS Require Import Model.Dec Model.Enc Proofs.ListN Proofs.NameLoop Proofs.EncTotal Proofs.EncLimits
  Proofs.RelocBuf Proofs.Reloc Proofs.RelocRec.
Require Import ZArith ZifyBool ZifyN ZifyNat.
Local Open Scope N_scope.
Ltac Zify.zify_post_hook ::= Z.div_mod_to_equations.

(* ---- running a simulated computation ---- *)
Lemma prot_nil P s : prot [] P s.
Proof. intros li []. Qed.

Lemma sim_run_fwd d lo (m : EM unit) P s t t' :
  sim d lo Vu m m -> reloc d lo P s t -> m t = EOk tt t' -> lenN (e_buf t') <= 16384 ->
  exists s' Pn, m s = EOk tt s' /\ reloc d lo (Pn ++ P) s' t' /\ (forall i, In i Pn -> lenN (e_buf s) <= i).
Proof.
  intros H HR E Hlen. specialize (H P s t HR (prot_nil _ _)). rewrite E in H.
  destruct (m s) as [[] s'|e|x|]; cbn [res_rel] in H; unfold big_t in H; try lia.
  destruct H as [[_ Hb]|(_ & _ & Pn & HR' & HPn)]; [lia|].
  exists s', Pn. split; [reflexivity|]. split; [exact HR'|exact HPn].
Qed.

Lemma sim_run_bwd d lo (m : EM unit) P s t s' :
  sim d lo Vu m m -> reloc d lo P s t -> m s = EOk tt s' -> lenN (e_buf s') + d <= 16384 ->
  exists t' Pn, m t = EOk tt t' /\ reloc d lo (Pn ++ P) s' t' /\ (forall i, In i Pn -> lenN (e_buf s) <= i).
Proof.
  intros H HR E Hlen. specialize (H P s t HR (prot_nil _ _)). rewrite E in H.
  destruct (m t) as [[] t'|e|x|]; cbn [res_rel] in H; unfold big_s in H; try lia.
  destruct H as [[Hb _]|(_ & _ & Pn & HR' & HPn)]; [lia|].
  exists t', Pn. split; [reflexivity|]. split; [exact HR'|exact HPn].
Qed.

(* two states with empty index whose buffer lengths differ by d are related from the end of the
   shorter buffer on *)
Lemma reloc_init d s t : e_idx s = [] -> e_idx t = [] -> lenN (e_buf t) = lenN (e_buf s) + d ->
  reloc d (lenN (e_buf s)) [] s t.
Proof.
  intros Hs Ht HL. split; [|split; [rewrite Hs, Ht; reflexivity|rewrite Hs; intros e []]].
  apply bufrel_init; [exact HL|]. intros i Hi. rewrite !nthN_none by lia. reflexivity.
Qed.

(* ---- any two prefixes ---- *)
Theorem reloc_any_prefix_fwd : forall (d : N) (r : rr) (s t t' : est),
  e_idx s = [] -> e_idx t = [] -> lenN (e_buf t) = lenN (e_buf s) + d ->
  enc_rr r t = EOk tt t' -> lenN (e_buf t') <= 16384 ->
  exists s' w1 w2 P, enc_rr r s = EOk tt s' /\
    e_buf s' = e_buf s ++ w1 /\ e_buf t' = e_buf t ++ w2 /\ bufrelP d P w1 w2 /\
    e_idx t' = map (shift_entry d) (e_idx s').
Proof.
  intros d r s t t' Hs Ht HL E Hlen.
  destruct (sim_run_fwd d _ _ [] s t t' (sim_enc_rr d _ r) (reloc_init d s t Hs Ht HL) E Hlen)
    as (s' & Pn & Es & (HB & HI & _) & HPn).
  rewrite app_nil_r in HB.
  pose proof (ext_enc_rr r s) as X1. rewrite Es in X1. destruct X1 as (w1 & Hw1 & _).
  pose proof (ext_enc_rr r t) as X2. rewrite E in X2. destruct X2 as (w2 & Hw2 & _).
  exists s', w1, w2, (map (fun i => i - lenN (e_buf s)) Pn).
  split; [exact Es|]. split; [exact Hw1|]. split; [exact Hw2|]. split; [|exact HI].
  rewrite Hw1, Hw2 in HB. eapply bufrel_suffix; [exact HB|reflexivity|exact HL|exact HPn].
Qed.

Theorem reloc_any_prefix_bwd : forall (d : N) (r : rr) (s t s' : est),
  e_idx s = [] -> e_idx t = [] -> lenN (e_buf t) = lenN (e_buf s) + d ->
  enc_rr r s = EOk tt s' -> lenN (e_buf s') + d <= 16384 ->
  exists t' w1 w2 P, enc_rr r t = EOk tt t' /\
    e_buf s' = e_buf s ++ w1 /\ e_buf t' = e_buf t ++ w2 /\ bufrelP d P w1 w2 /\
    e_idx t' = map (shift_entry d) (e_idx s').
Proof.
  intros d r s t s' Hs Ht HL E Hlen.
  destruct (sim_run_bwd d _ _ [] s t s' (sim_enc_rr d _ r) (reloc_init d s t Hs Ht HL) E Hlen)
    as (t' & Pn & Et & (HB & HI & _) & HPn).
  rewrite app_nil_r in HB.
  pose proof (ext_enc_rr r s) as X1. rewrite E in X1. destruct X1 as (w1 & Hw1 & _).
  pose proof (ext_enc_rr r t) as X2. rewrite Et in X2. destruct X2 as (w2 & Hw2 & _).
  exists t', w1, w2, (map (fun i => i - lenN (e_buf s)) Pn).
  split; [exact Et|]. split; [exact Hw1|]. split; [exact Hw2|]. split; [|exact HI].
  rewrite Hw1, Hw2 in HB. eapply bufrel_suffix; [exact HB|reflexivity|exact HL|exact HPn].
Qed.

(* ---- a message with one record ---- *)
Definition finish (r : eres unit) : res bytes :=
  match r with
  | EOk _ s' => if lenN (e_buf s') <? POW16 then Ok (e_buf s') else Err (XLength, [lenN (e_buf s')])
  | EErr e => Err e
  | EPanic x => Panic x
  | EIllTyped => OutOfFuel
  end.

Lemma enc_Dns_single_rr (m : dns) (r : rr) :
  m_qd m = [] -> m_an m = [r] -> m_ns m = [] -> m_ar m = [] ->
  enc_Dns m = finish (enc_rr r (sput e_init (hdr m))).
Proof.
  intros Hq Ha Hn Hr. unfold enc_Dns, erun. rewrite enc_dns_unfold. rewrite Hq, Ha, Hn, Hr.
  change (lenN (@nil question) <? POW16) with true. change (lenN [r] <? POW16) with true.
  change (lenN (@nil rr) <? POW16) with true. cbv iota.
  unfold enc_dns_body. rewrite Hq, Ha, Hn, Hr. cbn [emap].
  unfold get_offset, buf_len, efail, finish, ebind, eret.
  destruct (enc_rr r (sput e_init (hdr m))) as [[] s'|e|x|]; try reflexivity.
  destruct (lenN (e_buf s') <? POW16); reflexivity.
Qed.

Lemma enc_Dns_single_question (m : dns) (q : question) :
  m_qd m = [q] -> m_an m = [] -> m_ns m = [] -> m_ar m = [] ->
  enc_Dns m = finish (enc_question q (sput e_init (hdr m))).
Proof.
  intros Hq Ha Hn Hr. unfold enc_Dns, erun. rewrite enc_dns_unfold. rewrite Hq, Ha, Hn, Hr.
  change (lenN [q] <? POW16) with true. change (lenN (@nil rr) <? POW16) with true. cbv iota.
  unfold enc_dns_body. rewrite Hq, Ha, Hn, Hr. cbn [emap].
  unfold get_offset, buf_len, efail, finish, ebind, eret.
  destruct (enc_question q (sput e_init (hdr m))) as [[] s'|e|x|]; try reflexivity.
  destruct (lenN (e_buf s') <? POW16); reflexivity.
Qed.

Lemma finish_ok (r : eres unit) (b : bytes) : finish r = Ok b -> exists s', r = EOk tt s' /\ b = e_buf s'.
Proof.
  unfold finish. destruct r as [[] s'|e|x|]; try discriminate.
  destruct (lenN (e_buf s') <? POW16); [|discriminate]. intros E. inversion E. exists s'. split; reflexivity.
Qed.

Lemma reloc_hdr (m : dns) : reloc 12 0 [] e_init (sput e_init (hdr m)).
Proof.
  replace 0 with (lenN (e_buf e_init)) at 1 by reflexivity.
  apply reloc_init; [reflexivity|reflexivity|reflexivity].
Qed.

Lemma takeN_hdr (m : dns) (w : bytes) : takeN 12 (hdr m ++ w) = hdr m.
Proof. rewrite <- (lenN_hdr m). apply takeN_app_exact. Qed.

Theorem rr_first : forall (m : dns) (r : rr) (b : bytes),
  m_qd m = [] -> m_an m = [r] -> m_ns m = [] -> m_ar m = [] ->
  enc_Dns m = Ok b -> lenN b <= 16384 ->
  exists w P, enc_RR r = Ok w /\ bufrelP 12 P w (dropN 12 b) /\ takeN 12 b = hdr m /\
    (forall i, In i P -> exists h, nthN i w = Some h /\ 192 <= h).
Proof.
  intros m r b Hq Ha Hn Hr E Hlen. rewrite (enc_Dns_single_rr m r Hq Ha Hn Hr) in E.
  destruct (finish_ok _ _ E) as (t' & Et & ->).
  destruct (sim_run_fwd 12 0 _ [] _ _ t' (sim_enc_rr 12 0 r) (reloc_hdr m) Et Hlen)
    as (s' & Pn & Es & (HB & _ & _) & _).
  rewrite app_nil_r in HB. apply bufrel_bufrelP in HB.
  exists (e_buf s'), Pn. split; [unfold enc_RR, erun; rewrite Es; reflexivity|]. split; [exact HB|]. split.
  - pose proof (ext_enc_rr r (sput e_init (hdr m))) as X. rewrite Et in X. destruct X as (w & -> & _).
    apply takeN_hdr.
  - intros i Hi. destruct (bufrelP_ptr_octet _ _ _ _ i HB Hi) as (h & h' & H1 & _ & H2 & _).
    exists h. split; [exact H1|exact H2].
Qed.

Theorem rr_first_converse : forall (m : dns) (r : rr) (w : bytes),
  m_qd m = [] -> m_an m = [r] -> m_ns m = [] -> m_ar m = [] ->
  enc_RR r = Ok w -> lenN w + 12 <= 16384 ->
  exists b P, enc_Dns m = Ok b /\ bufrelP 12 P w (dropN 12 b) /\ takeN 12 b = hdr m.
Proof.
  intros m r w Hq Ha Hn Hr E Hlen. rewrite (enc_Dns_single_rr m r Hq Ha Hn Hr).
  unfold enc_RR, erun in E. destruct (enc_rr r e_init) as [[] s'|e|x|] eqn:Es; try discriminate.
  inversion E; subst w.
  destruct (sim_run_bwd 12 0 _ [] _ _ s' (sim_enc_rr 12 0 r) (reloc_hdr m) Es Hlen)
    as (t' & Pn & Et & (HB & _ & _) & _).
  rewrite app_nil_r in HB. pose proof HB as (HL & _). apply bufrel_bufrelP in HB.
  exists (e_buf t'), Pn. split; [|split; [exact HB|]].
  - rewrite Et. unfold finish. destruct (lenN (e_buf t') <? POW16) eqn:E1; [reflexivity|].
    apply N.ltb_ge in E1. rewrite POW16_val in E1. lia.
  - pose proof (ext_enc_rr r (sput e_init (hdr m))) as X. rewrite Et in X. destruct X as (w & -> & _).
    apply takeN_hdr.
Qed.

(* ---- a single name never holds a pointer ---- *)
Lemma elabel_long (l : label) (s : est) : 255 < lenN l ->
  match elabel l s with EOk _ _ => False | _ => True end.
Proof.
  intros H. unfold elabel, get_offset, buf_len, ebind.
  destruct (lenN (e_buf s) <? POW16); cbn [eret efail]; [|exact I].
  rewrite (EncLimits.estring_oversize l H). exact I.
Qed.

Lemma loop_noidx (labels : name) : forall (l1 l2 : list (name * N)) (s t t' : est),
  e_idx s = [] -> e_idx t = [] -> lenN (e_buf s) <= lenN (e_buf t) ->
  enc_name_loop labels l2 t = EOk tt t' ->
  exists s' w, enc_name_loop labels l1 s = EOk tt s' /\ e_buf s' = e_buf s ++ w /\ e_buf t' = e_buf t ++ w.
Proof.
  induction labels as [|l rest IH]; intros l1 l2 s t t' Hs Ht HL E; cbn [enc_name_loop] in *.
  - assert (lenN (@nil N) <= 255) as H0 by (cbn; lia).
    rewrite (ebind_ok _ _ _ _ _ (EncLimits.estring_ok [] H0 t)) in E.
    rewrite (ebind_ok _ _ _ _ _ (EncLimits.estring_ok [] H0 s)).
    rewrite merge_index_ok in E by lia. rewrite merge_index_ok by lia.
    inversion E; subst t'. eexists. exists (lenN (@nil N) :: []). cbn [e_buf sput].
    split; [reflexivity|]. split; reflexivity.
  - assert (Hct : compress (l :: rest) t = EOk None t) by (apply compress_none; rewrite Ht; reflexivity).
    assert (Hcs : compress (l :: rest) s = EOk None s) by (apply compress_none; rewrite Hs; reflexivity).
    rewrite (ebind_ok _ _ _ _ _ Hct) in E. rewrite (ebind_ok _ _ _ _ _ Hcs).
    destruct (N.ltb_spec (lenN (e_buf t)) 65536) as [Hsz|Hsz].
    2:{ rewrite (ebind_err _ _ _ _ (elabel_fail l t Hsz)) in E. discriminate. }
    destruct (N.leb_spec (lenN l) 255) as [Hl|Hl].
    2:{ pose proof (elabel_long l t Hl) as K. unfold ebind in E.
        destruct (elabel l t); [contradiction|discriminate..]. }
    rewrite (ebind_ok _ _ _ _ _ (elabel_ok l t Hl Hsz)) in E.
    assert (Hszs : lenN (e_buf s) < 65536) by lia.
    rewrite (ebind_ok _ _ _ _ _ (elabel_ok l s Hl Hszs)).
    match type of E with enc_name_loop rest ?loc2 ?t1 = _ =>
      match goal with |- exists s' w, enc_name_loop rest ?loc1 ?s1 = _ /\ _ =>
        destruct (IH loc1 loc2 s1 t1 t') as (s' & w & E1 & E2 & E3) end end.
    + exact Hs.
    + exact Ht.
    + cbn [with_buf e_buf]. rewrite !lenN_app. lia.
    + exact E.
    + exists s', ([lenN l] ++ l ++ w). split; [exact E1|].
      cbn [with_buf e_buf] in E2, E3. rewrite E2, E3, <- !app_assoc. split; reflexivity.
Qed.

Lemma ebind_log {B} (n : name) (f : unit -> EM B) (s : est) :
  ebind (log_name n) f s =
  f tt {| e_buf := e_buf s; e_idx := e_idx s; e_names := (lenN (e_buf s), n) :: e_names s |}.
Proof. reflexivity. Qed.

Lemma question_noidx (q : question) (s t t' : est) :
  e_idx s = [] -> e_idx t = [] -> lenN (e_buf s) <= lenN (e_buf t) ->
  enc_question q t = EOk tt t' ->
  exists s' w, enc_question q s = EOk tt s' /\ e_buf s' = e_buf s ++ w /\ e_buf t' = e_buf t ++ w.
Proof.
  intros Hs Ht HL E. unfold enc_question, enc_domain_name in *.
  rewrite ebind_assoc, ebind_log in E. rewrite ebind_assoc, ebind_log.
  match type of E with ebind _ _ ?t0 = _ => set (tl := t0) in * end.
  match goal with |- exists s' w, ebind _ _ ?s0 = _ /\ _ => set (sl := s0) end.
  destruct (enc_name_loop (q_name q) [] tl) as [[] t1|e|x|] eqn:EL;
    unfold ebind at 1 in E; rewrite EL in E; try discriminate.
  destruct (loop_noidx (q_name q) [] [] sl tl t1 Hs Ht HL EL) as (s1 & w & E1 & E2 & E3).
  rewrite (ebind_ok _ _ _ _ _ E1).
  unfold eu16 in *. rewrite ebind_put, put_eq in E. rewrite ebind_put, put_eq.
  inversion E; subst t'. eexists. exists (w ++ u16b (q_type q) ++ u16b (q_class q)).
  split; [reflexivity|]. cbn [sput e_buf]. rewrite E2, E3. subst sl tl. cbn [e_buf].
  rewrite <- !app_assoc. split; reflexivity.
Qed.

Theorem question_first_unbounded : forall (m : dns) (q : question) (b : bytes),
  m_qd m = [q] -> m_an m = [] -> m_ns m = [] -> m_ar m = [] ->
  enc_Dns m = Ok b -> exists w, enc_Question q = Ok w /\ b = hdr m ++ w.
Proof.
  intros m q b Hq Ha Hn Hr E. rewrite (enc_Dns_single_question m q Hq Ha Hn Hr) in E.
  destruct (finish_ok _ _ E) as (t' & Et & ->).
  destruct (question_noidx q e_init (sput e_init (hdr m)) t') as (s' & w & E1 & E2 & E3);
    [reflexivity|reflexivity|cbn; lia|exact Et|].
  exists w. split; [|exact E3]. unfold enc_Question, erun. rewrite E1, E2. reflexivity.
Qed.

Theorem question_first : forall (m : dns) (q : question) (b : bytes),
  m_qd m = [q] -> m_an m = [] -> m_ns m = [] -> m_ar m = [] ->
  enc_Dns m = Ok b -> lenN b <= 16384 -> exists w, enc_Question q = Ok w /\ b = hdr m ++ w.
Proof. intros m q b Hq Ha Hn Hr E _. eapply question_first_unbounded; eassumption. Qed.

Theorem question_first_converse : forall (m : dns) (q : question) (w : bytes),
  m_qd m = [q] -> m_an m = [] -> m_ns m = [] -> m_ar m = [] ->
  enc_Question q = Ok w -> lenN w + 12 <= 16384 -> enc_Dns m = Ok (hdr m ++ w).
Proof.
  intros m q w Hq Ha Hn Hr E Hlen.
  assert (exists b, enc_Dns m = Ok b) as (b & Eb).
  { rewrite (enc_Dns_single_question m q Hq Ha Hn Hr).
    unfold enc_Question, erun in E. destruct (enc_question q e_init) as [[] s'|e|x|] eqn:Es; try discriminate.
    inversion E; subst w.
    destruct (sim_run_bwd 12 0 _ [] _ _ s' (sim_enc_question 12 0 q) (reloc_hdr m) Es Hlen)
      as (t' & Pn & Et & ((HL & _) & _ & _) & _).
    exists (e_buf t'). rewrite Et. unfold finish. destruct (lenN (e_buf t') <? POW16) eqn:E1; [reflexivity|].
    apply N.ltb_ge in E1. rewrite POW16_val in E1. lia. }
  destruct (question_first_unbounded m q b Hq Ha Hn Hr Eb) as (w' & E' & ->).
  rewrite E in E'. inversion E'; subst w'. exact Eb.
Qed.

(* ---- the first element of ANY message (more elements may follow) ---- *)
Definition after_first_rr (m : dns) (rs : list rr) : EM unit :=
  _ <-- emap enc_rr rs ;; _ <-- emap enc_rr (m_ns m) ;; _ <-- emap enc_rr (m_ar m) ;; _ <-- get_offset ;; eret tt.
Definition after_first_question (m : dns) (qs : list question) : EM unit :=
  _ <-- emap enc_question qs ;; _ <-- emap enc_rr (m_an m) ;; _ <-- emap enc_rr (m_ns m) ;;
  _ <-- emap enc_rr (m_ar m) ;; _ <-- get_offset ;; eret tt.

Lemma ext_after_first_rr m rs : ext (after_first_rr m rs).
Proof. unfold after_first_rr. ext_go. Qed.
Lemma ext_after_first_question m qs : ext (after_first_question m qs).
Proof. unfold after_first_question. ext_go. Qed.

Lemma body_rr_first (m : dns) (r : rr) (rs : list rr) (s : est) : m_qd m = [] -> m_an m = r :: rs ->
  enc_dns_body m s = ebind (enc_rr r) (fun _ => after_first_rr m rs) s.
Proof.
  intros Hq Ha. unfold enc_dns_body. rewrite Hq, Ha. cbn [emap].
  change (ebind (eret tt) ?f s) with (f tt s). cbv beta. rewrite ebind_assoc. reflexivity.
Qed.
Lemma body_question_first (m : dns) (q : question) (qs : list question) (s : est) : m_qd m = q :: qs ->
  enc_dns_body m s = ebind (enc_question q) (fun _ => after_first_question m qs) s.
Proof.
  intros Hq. unfold enc_dns_body. rewrite Hq. cbn [emap]. rewrite ebind_assoc. reflexivity.
Qed.

Lemma enc_Dns_body (m : dns) (b : bytes) : enc_Dns m = Ok b ->
  exists s', enc_dns_body m (sput e_init (hdr m)) = EOk tt s' /\ b = e_buf s'.
Proof.
  unfold enc_Dns, erun. rewrite enc_dns_unfold.
  destruct (lenN (m_qd m) <? POW16); [|discriminate].
  destruct (lenN (m_an m) <? POW16); [|discriminate].
  destruct (lenN (m_ns m) <? POW16); [|discriminate].
  destruct (lenN (m_ar m) <? POW16); [|discriminate].
  destruct (enc_dns_body m (sput e_init (hdr m))) as [[] s'|e|x|]; try discriminate.
  intros E. inversion E. exists s'. split; reflexivity.
Qed.

Theorem question_first_general : forall (m : dns) (q : question) (qs : list question) (b : bytes),
  m_qd m = q :: qs -> enc_Dns m = Ok b ->
  exists w rest, enc_Question q = Ok w /\ b = hdr m ++ w ++ rest.
Proof.
  intros m q qs b Hq E. destruct (enc_Dns_body m b E) as (s2 & E2 & ->).
  rewrite (body_question_first m q qs _ Hq) in E2. unfold ebind at 1 in E2.
  destruct (enc_question q (sput e_init (hdr m))) as [[] t1|e|x|] eqn:Et; try discriminate.
  pose proof (ext_after_first_question m qs t1) as X. rewrite E2 in X. destruct X as (rest & Hrest & _).
  destruct (question_noidx q e_init (sput e_init (hdr m)) t1) as (s' & w & E1 & E3 & E4);
    [reflexivity|reflexivity|cbn; lia|exact Et|].
  exists w, rest. split; [unfold enc_Question, erun; rewrite E1, E3; reflexivity|].
  rewrite Hrest, E4. cbn [sput e_buf e_init app]. rewrite <- app_assoc. reflexivity.
Qed.

Theorem rr_first_general : forall (m : dns) (r : rr) (rs : list rr) (b : bytes),
  m_qd m = [] -> m_an m = r :: rs -> enc_Dns m = Ok b -> lenN b <= 16384 ->
  exists w w' rest P, enc_RR r = Ok w /\ b = hdr m ++ w' ++ rest /\ bufrelP 12 P w w'.
Proof.
  intros m r rs b Hq Ha E Hlen. destruct (enc_Dns_body m b E) as (s2 & E2 & ->).
  rewrite (body_rr_first m r rs _ Hq Ha) in E2. unfold ebind at 1 in E2.
  destruct (enc_rr r (sput e_init (hdr m))) as [[] t1|e|x|] eqn:Et; try discriminate.
  pose proof (ext_after_first_rr m rs t1) as X. rewrite E2 in X. destruct X as (rest & Hrest & _).
  assert (Hlen1 : lenN (e_buf t1) <= 16384) by (rewrite Hrest, lenN_app in Hlen; lia).
  destruct (sim_run_fwd 12 0 _ [] _ _ t1 (sim_enc_rr 12 0 r) (reloc_hdr m) Et Hlen1)
    as (s' & Pn & Es & (HB & _ & _) & _).
  rewrite app_nil_r in HB.
  pose proof (ext_enc_rr r (sput e_init (hdr m))) as Y. rewrite Et in Y. destruct Y as (w' & Hw' & _).
  cbn [sput e_buf e_init app] in Hw'.
  exists (e_buf s'), w', rest, (map (fun i => i - 0) Pn).
  split; [unfold enc_RR, erun; rewrite Es; reflexivity|]. split; [rewrite Hrest, Hw', <- app_assoc; reflexivity|].
  rewrite Hw' in HB. change (e_buf s') with ([] ++ e_buf s') in HB.
  eapply bufrel_suffix; [exact HB|reflexivity|reflexivity|intros i _; lia].
Qed.
