(* Resource records: class rule, RDATA by type (generic table, OPT, APL, SVCB/HTTPS), record framing. *)
From Coq Require Import ZifyBool ZifyN ZifyNat.
From DNS Require Import Model.Dec Spec.Names Spec.Iana Spec.Wire Proofs.DecBase Proofs.Enum
  Proofs.CorrBase Proofs.CorrPrim Proofs.CorrFields Proofs.CorrAddr Proofs.CorrApl Proofs.CorrSvcb Proofs.CorrOpt.
Local Open Scope N_scope.

(* ---- spec-side shapes ---- *)
Definition class_spec (t cls : N) : P N := fun _ a _ =>
  if negb (mem cls (codes iana_Class)) then None
  else if in_only t && negb (cls =? 1) then None else Some (cls, a).

Definition opt_spec (owner : name) (hclass ttl : N) : P rdata :=
  match owner with
  | _ :: _ => pnone
  | [] => if ttl mod 32768 =? 0
          then opts <~ many_to_end option_ ;;
               pret (ROpt hclass (ttl / 16777216) ((ttl / 65536) mod 256) (testb ttl 15) opts)
          else pnone
  end.

Definition svc_set_spec : P (list svcparam) :=
  ps <~ many_to_end svc_param ;; match as_set [] ps with Some set => pret set | None => pnone end.

Definition svcb_spec : P rdata :=
  prio <~ num 2 ;; target <~ pname ;;
  if prio =? 0 then pret (RSvcb prio target []) else set <~ svc_set_spec ;; pret (RSvcb prio target set).

Lemma pbind_pnone {A B} (p : P A) (b : bytes) (a e : N) : pbind p (fun _ => @pnone B) b a e = None.
Proof. unfold pbind, pnone. destruct (p b a e) as [[v a1]|]; reflexivity. Qed.

Lemma is_special_false (t : N) : is_special t = false ->
  (t =? 41) = false /\ (t =? 42) = false /\ (t =? 64) = false /\ (t =? 65) = false.
Proof.
  unfold is_special. intro H. apply orb_false_elim in H. destruct H as (H & H4).
  apply orb_false_elim in H. destruct H as (H & H3). apply orb_false_elim in H. destruct H as (H1 & H2).
  split; [exact H1|]. split; [exact H2|]. split; assumption.
Qed.

(* the reference's RDATA parser, by cases on the type *)
Lemma rdata_plain (t cls ttl : N) (owner : name) (ks : list sk) (b : bytes) (a e : N) :
  is_special t = false -> fmt t = Some ks ->
  rdata_of t cls ttl owner b a e =
  (c <~ class_spec t cls ;; vs <~ fields ks ;;
   pret {| r_type := t; r_name := owner; r_class := c; r_ttl := ttl; r_data := RFields vs |}) b a e.
Proof.
  intros Hs Hf. destruct (is_special_false t Hs) as (H1 & H2 & H3 & H4).
  unfold rdata_of, pbind at 1, class_spec. rewrite H1, H2, H3, H4, Hf. cbn [orb].
  destruct (negb (mem cls (codes iana_Class))); [reflexivity|].
  destruct (in_only t && negb (cls =? 1)); reflexivity.
Qed.
Lemma rdata_none (t cls ttl : N) (owner : name) (b : bytes) (a e : N) :
  is_special t = false -> fmt t = None -> rdata_of t cls ttl owner b a e = None.
Proof.
  intros Hs Hf. destruct (is_special_false t Hs) as (H1 & H2 & H3 & H4).
  unfold rdata_of. rewrite H1, H2, H3, H4, Hf. cbn [orb].
  destruct (negb (mem cls (codes iana_Class))); [reflexivity|].
  destruct (in_only t && negb (cls =? 1)); reflexivity.
Qed.
Lemma rdata_opt (cls ttl : N) (owner : name) (b : bytes) (a e : N) :
  rdata_of 41 cls ttl owner b a e =
  (d <~ opt_spec owner cls ttl ;;
   pret {| r_type := 41; r_name := []; r_class := 0; r_ttl := 0; r_data := d |}) b a e.
Proof.
  unfold rdata_of, opt_spec. change (41 =? 41) with true. cbv iota.
  destruct owner as [|l r]; [|reflexivity].
  destruct (ttl mod 32768 =? 0); [|reflexivity].
  unfold pbind, pret. destruct (many_to_end option_ b a e) as [[opts a1]|]; reflexivity.
Qed.
Lemma rdata_apl (cls ttl : N) (owner : name) (b : bytes) (a e : N) :
  rdata_of 42 cls ttl owner b a e =
  (c <~ class_spec 42 cls ;; items <~ many_to_end apl_item ;;
   pret {| r_type := 42; r_name := owner; r_class := 1; r_ttl := ttl; r_data := RApl items |}) b a e.
Proof.
  unfold rdata_of, pbind at 1, class_spec. change (42 =? 41) with false. cbv iota.
  destruct (negb (mem cls (codes iana_Class))); [reflexivity|].
  destruct (in_only 42 && negb (cls =? 1)); reflexivity.
Qed.
Lemma rdata_svcb (t cls ttl : N) (owner : name) (b : bytes) (a e : N) : t = 64 \/ t = 65 ->
  rdata_of t cls ttl owner b a e =
  (c <~ class_spec t cls ;; d <~ svcb_spec ;;
   pret {| r_type := t; r_name := owner; r_class := 1; r_ttl := ttl; r_data := d |}) b a e.
Proof.
  intro Ht. unfold rdata_of, pbind at 1, class_spec.
  assert ((t =? 41) = false) as -> by lia. assert ((t =? 42) = false) as -> by lia.
  assert ((t =? 64) || (t =? 65) = true) as -> by lia.
  destruct (negb (mem cls (codes iana_Class))); [reflexivity|].
  destruct (in_only t && negb (cls =? 1)); [reflexivity|].
  unfold svcb_spec, svc_set_spec, pbind, pret, pnone.
  destruct (num 2 b a e) as [[prio a1]|]; [|reflexivity].
  destruct (pname b a1 e) as [[target a2]|]; [|reflexivity].
  destruct (prio =? 0); [reflexivity|].
  destruct (many_to_end svc_param b a2 e) as [[ps a3]|]; [|reflexivity].
  destruct (as_set [] ps); reflexivity.
Qed.

Section Main.
Variable main : bytes.
Hypothesis Hb : bytes_ok main.
Hypothesis Hm : lenN main < 2 ^ 62.
Set Default Proof Using "Hb Hm".

Notation corr := (corr main).
Notation post := (post main).
Local Notation corr_u8 := (corr_u8 main Hb Hm).
Local Notation corr_u16 := (corr_u16 main Hb Hm).
Local Notation corr_u32 := (corr_u32 main Hb Hm).
Local Notation corr_name := (corr_name main Hb Hm).
Local Notation corr_bind_assoc := (corr_bind_assoc main Hb Hm).
Local Notation corr_with_sub := (corr_with_sub main Hb Hm).
Local Notation corr_many_k := (corr_many_k main Hb Hm).

(* ---- class rule ---- *)
Lemma corr_class (ck : classrule) (t cls : N) :
  match ck with CKAny => in_only t = false | CKIn _ => in_only t = true | CKNone => False end ->
  corr (class_rule ck cls) (class_spec t cls).
Proof.
  intros Hck s a e Hi. unfold class_spec.
  destruct ck as [|er|]; cbn [class_rule]; [| |contradiction]; unfold get_class; rewrite tab_Class, Hck.
  - cbn [andb]. destruct (mem cls (codes iana_Class)); cbn [negb]; [apply agree_ret; exact Hi|exact I].
  - cbn [andb]. unfold bind, CLASS_IN. destruct (mem cls (codes iana_Class)); cbn [negb]; [|exact I].
    unfold ret at 1. destruct (cls =? 1); cbn [negb]; [apply agree_ret; exact Hi|exact I].
Qed.

(* ---- RDATA by type ---- *)
Lemma corr_svcb_rdata : corr (priority <- u16 ;; target <- domain_name main ;;
                              if negb (priority =? 0)
                              then fuel <- loop_fuel ;; ps <- svc_params fuel [] ;; ret (RSvcb priority target ps)
                              else ret (RSvcb priority target [])) svcb_spec.
Proof.
  unfold svcb_spec. apply corr_bind; [apply corr_u16|]. intro prio.
  apply corr_bind; [apply corr_name|]. intro target.
  destruct (prio =? 0); cbn [negb]; [apply corr_ret|].
  apply (corr_ext main (bind (fuel <- loop_fuel ;; svc_params fuel []) (fun ps => ret (RSvcb prio target ps))) _
                       (set <~ svc_set_spec ;; pret (RSvcb prio target set)));
    [intro s; apply bind_assoc|reflexivity|].
  apply corr_bind; [exact (corr_svc_params main Hb Hm)|]. intro ps. apply corr_ret.
Qed.

Lemma corr_body_svcb (t : N) (owner : name) (cls ttl : N) : t = 64 \/ t = 65 ->
  corr (d <- rr_service_binding main cls ;;
        ret {| r_type := t; r_name := owner; r_class := CLASS_IN; r_ttl := ttl; r_data := d |})
       (rdata_of t cls ttl owner).
Proof.
  intro Ht.
  apply (corr_ext main (c <- class_rule (CKIn ESVCBClass) cls ;;
                        d <- (priority <- u16 ;; target <- domain_name main ;;
                              if negb (priority =? 0)
                              then fuel <- loop_fuel ;; ps <- svc_params fuel [] ;; ret (RSvcb priority target ps)
                              else ret (RSvcb priority target [])) ;;
                        ret {| r_type := t; r_name := owner; r_class := CLASS_IN; r_ttl := ttl; r_data := d |}) _
           (c <~ class_spec t cls ;; d <~ svcb_spec ;;
            pret {| r_type := t; r_name := owner; r_class := 1; r_ttl := ttl; r_data := d |}) _).
  { intro s. unfold rr_service_binding. rewrite bind_assoc. reflexivity. }
  { intros a e. symmetry. apply rdata_svcb. exact Ht. }
  apply corr_bind; [apply corr_class; destruct Ht as [-> | ->]; reflexivity|]. intro c.
  apply corr_bind; [exact corr_svcb_rdata|]. intro d. apply corr_ret.
Qed.

Lemma corr_body (t : N) (owner : name) (cls ttl : N) :
  mem t (codes iana_Type) = true -> ttl < 4294967296 ->
  corr (rr_body main t owner cls ttl) (rdata_of t cls ttl owner).
Proof.
  intros Ht Httl. pose proof (disp_ok_type t Ht) as D. unfold disp_ok in D. unfold rr_body.
  destruct (lookup t dec_dispatch) as [[ck f|sp]|].
  - (* generic fields *)
    destruct D as (ks & Hf & Hmap & Hsp & Hck).
    apply (corr_ext main _ _
             (c <~ class_spec t cls ;; vs <~ fields ks ;;
              pret {| r_type := t; r_name := owner; r_class := c; r_ttl := ttl; r_data := RFields vs |}) _
             (fun s => eq_refl)).
    { intros a e. symmetry. apply rdata_plain; assumption. }
    apply corr_bind; [apply corr_class; exact Hck|]. intro c.
    apply corr_bind; [apply (corr_fields main Hb Hm); exact Hmap|]. intro vs. apply corr_ret.
  - destruct sp.
    + (* OPT *) subst t.
      apply (corr_ext main _ _
               (d <~ opt_spec owner cls ttl ;;
                pret {| r_type := 41; r_name := []; r_class := 0; r_ttl := 0; r_data := d |}) _
               (fun s => eq_refl)).
      { intros a e. symmetry. apply rdata_opt. }
      apply corr_bind; [exact (corr_rr_opt main Hb Hm owner cls ttl Httl)|]. intro d. apply corr_ret.
    + (* APL *) subst t.
      apply (corr_ext main (c <- class_rule (CKIn EAPLClass) cls ;; fuel <- loop_fuel ;;
                            items <- many fuel rr_apl_apitem [] ;;
                            ret {| r_type := 42; r_name := owner; r_class := CLASS_IN; r_ttl := ttl;
                                   r_data := RApl items |}) _
               (c <~ class_spec 42 cls ;; items <~ many_to_end apl_item ;;
                pret {| r_type := 42; r_name := owner; r_class := 1; r_ttl := ttl; r_data := RApl items |}) _).
      { intro s. unfold rr_apl, bind. destruct (class_rule (CKIn EAPLClass) cls s) as [c s1| | |]; try reflexivity.
        unfold loop_fuel. destruct (many _ rr_apl_apitem [] s1); reflexivity. }
      { intros a e. symmetry. apply rdata_apl. }
      apply corr_bind; [apply corr_class; reflexivity|]. intro c.
      apply corr_many_k; [exact (corr_apl_item main Hb Hm)|exact progress_apl_item|]. intro items. apply corr_ret.
    + (* SVCB *) subst t. apply corr_body_svcb. left. reflexivity.
    + (* HTTPS *) subst t. apply corr_body_svcb. right. reflexivity.
  - (* a registered type the library does not implement *)
    destruct D as (Hf & Hsp).
    apply (corr_ext main (fail (ENotYetImplemented, [t])) _ pnone _ (fun s => eq_refl)); [|apply corr_fail].
    intros a e. symmetry. apply rdata_none; assumption.
Qed.

(* ---- record framing ---- *)
Lemma corr_record : corr (rr_ main) record.
Proof.
  unfold rr_, record, rr_type, code.
  apply corr_bind; [apply corr_name|]. intro owner.
  apply corr_bind_assoc. apply corr_bind; [apply corr_u16|]. intro t. rewrite tab_Type.
  destruct (mem t (codes iana_Type)) eqn:Et.
  - apply (corr_bind main (u16) _ (num 2)); [apply corr_u16|]. intro cls.
    apply (corr_bind_post main _ _ _ _ (fun v => v < 4294967296)); [apply corr_u32|apply (post_num4 main Hb Hm)|].
    intros ttl Httl. apply corr_bind; [apply corr_u16|]. intro rdlen.
    apply corr_with_sub, corr_corr_w, corr_body; assumption.
  - apply (corr_ext main (fail (EType, [t])) _ pnone); [reflexivity| |apply corr_fail].
    intros a e. unfold pbind, pnone. destruct (num 2 main a e) as [[cls a1]|]; [|reflexivity].
    destruct (num 4 main a1 e) as [[ttl a2]|]; [|reflexivity].
    destruct (num 2 main a2 e) as [[rdlen a3]|]; reflexivity.
Qed.

End Main.
Unset Default Proof Using.
