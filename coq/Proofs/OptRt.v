(* C15, part 6 — every valid EDNS option is emitted as its RFC wire form and that wire form decodes
   to the same option.  src/encode/rr/edns/*.rs against src/decode/rr/edns/*.rs. *)
From DNS Require Import Proofs.EncTotal Model.Dec Model.Enc Proofs.DecBase Proofs.C12 Proofs.OptBase Proofs.OptDec.
Require Import ZArith ZifyBool ZifyN ZifyNat.
Local Open Scope N_scope.
Ltac Zify.zify_post_hook ::= Z.div_mod_to_equations.

(* ---- generated constants ---- *)
Lemma OPT_codes_in_table :
  in_table EDNSOptionCode_table 8 = true /\ in_table EDNSOptionCode_table 10 = true /\
  in_table EDNSOptionCode_table 12 = true.
Proof. split; [|split]; reflexivity. Qed.

(* ================================================================================================ *)
(* The wire form of an option (RFC 6891 6.1.2: OPTION-CODE, OPTION-LENGTH, OPTION-DATA)              *)
(* ================================================================================================ *)

Definition cookie_body (c : cookie) : bytes :=
  c_client c ++ match c_server c with Some sv => sv | None => [] end.
(* the address is written up to its last non-zero octet, but with at least ceil(source / 8) octets *)
Definition ecs_count (e : ecs) : N := N.max (addr_significant (a_oct (e_addr e))) ((e_src e + 7) / 8).
Definition ecs_cut (e : ecs) : bytes := takeN (ecs_count e) (a_oct (e_addr e)).
Definition ecs_body (e : ecs) : bytes :=
  u16b (a_fam (e_addr e)) ++ u8b (e_src e) ++ u8b (e_scope e) ++ ecs_cut e.
Definition opt_body (o : ednsopt) : bytes :=
  match o with
  | OEcs e => ecs_body e
  | OCookie c => cookie_body c
  | OPadding n => zeros (N.to_nat n)
  end.
Definition opt_code (o : ednsopt) : N :=
  match o with OEcs _ => 8 | OCookie _ => 10 | OPadding _ => 12 end.
Definition opt_wire (o : ednsopt) : bytes :=
  u16b (opt_code o) ++ u16b (lenN (opt_body o)) ++ opt_body o.

(* the values the Rust types can hold, plus the invariants of the validated types *)
Definition opt_valid (o : ednsopt) : Prop :=
  match o with
  | OEcs e => ecs_inv e /\ e_src e < 256 /\ e_scope e < 256
  | OCookie c => lenN (c_client c) = 8 /\ bytes_ok (c_client c) /\
                 match c_server c with Some sv => 8 <= lenN sv <= 32 /\ bytes_ok sv | None => True end
  | OPadding n => n < 65536
  end.

(* ================================================================================================ *)
(* Encoder                                                                                           *)
(* ================================================================================================ *)

Lemma emits_address (a : addr) (m : N) :
  emits (rr_address_with_length a m) (takeN (N.max (addr_significant (a_oct a)) m) (a_oct a)).
Proof. intro st. rewrite rr_address_with_length_eq. reflexivity. Qed.

Lemma emits_cookie_server (o : option bytes) :
  emits (match o with Some s => put s | None => eret tt end) (match o with Some sv => sv | None => [] end).
Proof. destruct o; [apply emits_put|apply emits_ret]. Qed.

Lemma lenN_takeN_le {A} n (l : list A) : lenN (takeN n l) <= lenN l.
Proof. rewrite lenN_takeN. lia. Qed.

Lemma addr_wf_len a : addr_wf a -> lenN (a_oct a) = fam_size (a_fam a) /\ (a_fam a = 1 \/ a_fam a = 2).
Proof.
  intros [[[F L]|[F L]] _]; unfold fam_size; rewrite F, L; split; try reflexivity; [left|right]; reflexivity.
Qed.

Lemma ecs_body_len e : addr_wf (e_addr e) -> lenN (ecs_body e) = 4 + lenN (ecs_cut e) /\ lenN (ecs_cut e) <= 16.
Proof.
  intro W. unfold ecs_body. rewrite !lenN_app, lenN_u16b, !lenN_u8b. split; [lia|].
  pose proof (lenN_takeN_le (ecs_count e) (a_oct (e_addr e))) as H. fold (ecs_cut e) in H.
  destruct (addr_wf_len _ W) as [L [F|F]]; rewrite L in H; unfold fam_size in H; rewrite F in H.
  - change (1 =? 1) with true in H. cbv iota in H. lia.
  - change (2 =? 1) with false in H. cbv iota in H. lia.
Qed.

Lemma opt_body_len o : opt_valid o -> lenN (opt_body o) < 65536.
Proof.
  destruct o as [e|c|n]; cbn [opt_valid opt_body].
  - intros [[W _] _]. destruct (ecs_body_len e W) as [-> H]. lia.
  - intros (H1 & _ & H3). unfold cookie_body. rewrite lenN_app, H1.
    destruct (c_server c) as [sv|]; [destruct H3 as [H3 _]; lia|rewrite lenN_nil; lia].
  - intro H. rewrite lenN_zeros. lia.
Qed.

Lemma emits_ecs_body e : emits (_ <-- eu16 (a_fam (e_addr e)) ;; _ <-- eu8 (e_src e) ;; _ <-- eu8 (e_scope e) ;;
                                rr_address_with_length (e_addr e) ((e_src e + 7) / 8)) (ecs_body e).
Proof.
  unfold ecs_body, ecs_cut, ecs_count.
  apply emits_seq; [apply emits_eu16|]. apply emits_seq; [apply emits_eu8|].
  apply emits_seq; [apply emits_eu8|]. apply emits_address.
Qed.

Lemma app_buf4 x a b c d :
  app_buf (app_buf (app_buf (app_buf x a) b) c) d = app_buf x (a ++ b ++ c ++ d).
Proof. unfold app_buf. cbn [e_buf e_idx e_names]. rewrite <- !app_assoc. reflexivity. Qed.

(* every valid option is written as its wire form, from any encoder state *)
Lemma emits_option (o : ednsopt) : opt_valid o -> emits (enc_edns_option o) (opt_wire o).
Proof.
  intro V. pose proof (opt_body_len o V) as HL. intro st. unfold opt_wire.
  destruct o as [e|c|n]; cbn [enc_edns_option opt_code opt_body] in *.
  - unfold enc_ecs, OPT_ECS. rewrite ecs_minimum_length_eq.
    rewrite (bind_emits _ _ _ st (emits_eu16 8)), cli_spec.
    set (st1 := app_buf st (u16b 8)).
    rewrite (bind_emits _ _ _ _ (emits_eu16 (a_fam (e_addr e)))).
    rewrite (bind_emits _ _ _ _ (emits_eu8 (e_src e))).
    rewrite (bind_emits _ _ _ _ (emits_eu8 (e_scope e))).
    rewrite (bind_emits _ _ _ _ (emits_address (e_addr e) ((e_src e + 7) / 8))).
    rewrite (app_buf4 (app_buf st1 [0; 0])).
    change (u16b (a_fam (e_addr e)) ++ u8b (e_src e) ++ u8b (e_scope e) ++
            takeN (N.max (addr_significant (a_oct (e_addr e))) ((e_src e + 7) / 8)) (a_oct (e_addr e)))
      with (ecs_body e).
    rewrite (sli_spec st1 (ecs_body e) HL). unfold st1. rewrite app_buf_app. reflexivity.
  - unfold enc_cookie, OPT_COOKIE.
    rewrite (bind_emits _ _ _ st (emits_eu16 10)), cli_spec.
    set (st1 := app_buf st (u16b 10)).
    rewrite (bind_emits _ _ _ _ (emits_put (c_client c))).
    rewrite (bind_emits _ _ _ _ (emits_cookie_server (c_server c))).
    rewrite (app_buf_app (app_buf st1 [0; 0])).
    etransitivity; [exact (sli_spec st1 (cookie_body c) HL)|].
    unfold st1. rewrite app_buf_app. reflexivity.
  - unfold enc_padding, OPT_PADDING. rewrite lenN_zeros, N2Nat.id.
    rewrite (bind_emits _ _ _ st (emits_eu16 12)), (bind_emits _ _ _ _ (emits_eu16 n)).
    cbn [opt_valid] in V. rewrite POW16_val'. replace (n mod 65536) with n by lia.
    rewrite (emits_put (zeros (N.to_nat n))), !app_buf_app. reflexivity.
Qed.

(* ================================================================================================ *)
(* Decoder                                                                                           *)
(* ================================================================================================ *)

Definition opt_branch (c : N) : DM ednsopt :=
  if c =? OPT_ECS then e <- rr_edns_ecs ;; ret (OEcs e)
  else if c =? OPT_COOKIE then k <- rr_edns_cookie ;; ret (OCookie k)
  else p <- rr_edns_padding ;; ret (OPadding p).

(* the parent state after one option whose body has [n] octets *)
Definition opt_end (n : N) (rest : bytes) (s : dst) : dst :=
  {| d_rest := rest; d_off := d_off s + (4 + n); d_len := d_len s; d_cost := d_cost s + 4 + n + n |}.

Lemma option_frame (s : dst) (cd : N) (body rest : bytes) (o : ednsopt) :
  dst_wf s -> d_rest s = u16b cd ++ u16b (lenN body) ++ body ++ rest ->
  in_table EDNSOptionCode_table cd = true -> cd < 65536 -> lenN body < 65536 ->
  (forall c, opt_branch cd (sub_win body c) = DOk o (drained (sub_win body c))) ->
  rr_edns_option s = DOk o (opt_end (lenN body) rest s).
Proof.
  intros W Hr Hin Hc Hb Hm. pose proof W as (W1 & W2 & W3 & W4).
  assert (lenN (d_rest s) = 4 + lenN body + lenN rest) as HL.
  { rewrite Hr, !lenN_app, !lenN_u16b. lia. }
  assert (d_len s < POW64) as H64 by (unfold WFMAX, POW64 in *; lia).
  change rr_edns_option with (c <- code EDNSOptionCode_table EEDNSOptionCode u16 ;; len <- u16 ;;
                              with_sub len (opt_branch c)).
  unfold bind at 1. unfold Dec.code, bind at 1.
  rewrite (u16_cons s (cd / 256 mod 256) (cd mod 256) (u16b (lenN body) ++ body ++ rest) Hr) by lia.
  rewrite (u16b_be cd Hc), Hin. unfold ret at 1.
  set (s1 := step 2 (u16b (lenN body) ++ body ++ rest) s).
  unfold bind at 1.
  rewrite (u16_cons s1 (lenN body / 256 mod 256) (lenN body mod 256) (body ++ rest) eq_refl);
    [|unfold s1; cbn [step d_off d_len]; lia|exact H64].
  rewrite (u16b_be (lenN body) Hb).
  set (s2 := step 2 (body ++ rest) s1).
  rewrite (with_sub_drain (opt_branch cd) (lenN body) s2 body rest o eq_refl eq_refl);
    [|unfold s2, s1; cbn [step d_off d_len]; lia|exact H64|exact Hm].
  f_equal. unfold after_sub, opt_end, s2, s1. cbn [step d_rest d_off d_len d_cost]. f_equal; lia.
Qed.

(* -- the three bodies -- *)
Lemma cookie_branch (c : cookie) : opt_valid (OCookie c) ->
  forall k, opt_branch 10 (sub_win (cookie_body c) k) = DOk (OCookie c) (drained (sub_win (cookie_body c) k)).
Proof.
  intros V k. destruct c as [cl sv]. cbn [opt_valid c_client c_server] in V. destruct V as (H1 & H2 & H3).
  unfold opt_branch, OPT_ECS, OPT_COOKIE. change (10 =? 8) with false. change (10 =? 10) with true. cbv iota.
  unfold cookie_body. cbn [c_client c_server].
  destruct (cookie_accept (sub_win (cl ++ match sv with Some sv0 => sv0 | None => [] end) k) (sub_win_le _ _))
    as (A1 & A2 & _). cbv zeta in A1, A2. cbn [sub_win d_rest] in A1, A2.
  unfold bind. destruct sv as [sv|].
  - destruct H3 as [H3 H4].
    assert (takeN 8 (cl ++ sv) = cl) as E1 by (apply takeN_app_len; exact H1).
    assert (dropN 8 (cl ++ sv) = sv) as E2 by (apply dropN_app_len; exact H1).
    rewrite E1, E2 in A2. rewrite A2; [reflexivity|]. rewrite lenN_app. lia.
  - assert (takeN 8 (cl ++ []) = cl) as E1 by (apply takeN_app_len; exact H1).
    rewrite E1 in A1. rewrite A1; [reflexivity|]. rewrite lenN_app, lenN_nil. lia.
Qed.

Lemma zeros_all_zero k : Forall (fun b => b = 0) (zeros k).
Proof. induction k as [|k IH]; cbn [zeros]; constructor; [reflexivity|exact IH]. Qed.

Lemma padding_branch (n : N) : n < 65536 ->
  forall k, opt_branch 12 (sub_win (zeros (N.to_nat n)) k) =
            DOk (OPadding n) (drained (sub_win (zeros (N.to_nat n)) k)).
Proof.
  intros V k. unfold opt_branch, OPT_ECS, OPT_COOKIE.
  change (12 =? 8) with false. change (12 =? 10) with false. cbv iota. unfold bind.
  destruct (padding_accept (sub_win (zeros (N.to_nat n)) k) (sub_win_le _ _)) as (A1 & _).
  cbv zeta in A1. cbn [sub_win d_rest] in A1. rewrite lenN_zeros, N2Nat.id in A1.
  rewrite (A1 V (zeros_all_zero _)). reflexivity.
Qed.

(* the octets the writer cuts off lie behind the last non-zero one, so zero-filling restores the
   address: whatever the minimum length, and without any appeal to the prefix *)
Lemma zero_fill_cut (a : addr) (k : N) : addr_wf a -> addr_significant (a_oct a) <= k ->
  zero_fill (a_fam a) (takeN k (a_oct a)) = a.
Proof.
  intros W Hk. destruct (addr_wf_len a W) as [L F].
  pose proof (addr_significant_dropped (a_oct a) k Hk) as Z.
  apply forallb_zero_zeros in Z.
  destruct a as [fam oct]. cbn [a_fam a_oct] in *. unfold zero_fill. f_equal.
  assert (oct = takeN k oct ++ dropN k oct) as Ho by (symmetry; apply takeN_dropN_id).
  assert (N.to_nat (fam_size fam - lenN (takeN k oct)) = length (dropN k oct)) as Hn.
  { rewrite <- L. unfold lenN, takeN, dropN. rewrite firstn_length, skipn_length. lia. }
  rewrite Hn, <- Z. symmetry. exact Ho.
Qed.

Lemma ecs_branch (e : ecs) : opt_valid (OEcs e) ->
  forall k, opt_branch 8 (sub_win (ecs_body e) k) = DOk (OEcs e) (drained (sub_win (ecs_body e) k)).
Proof.
  intros V k. cbn [opt_valid] in V. destruct V as ([W P] & Hs & Hc).
  destruct (ecs_body_len e W) as [HL HC]. destruct (addr_wf_len _ W) as [L F].
  unfold opt_branch, OPT_ECS. change (8 =? 8) with true. cbv iota. unfold bind.
  set (fam := a_fam (e_addr e)) in *.
  assert (fam < 65536) as Hfam by (destruct F as [-> | ->]; lia).
  assert (bytes_ok (ecs_cut e)) as Hcut.
  { unfold ecs_cut. apply bytes_ok_takeN. exact (proj2 W). }
  assert (dst_wf (sub_win (ecs_body e) k)) as Wsub.
  { unfold dst_wf, sub_win. cbn [d_rest d_off d_len]. split; [lia|]. split; [unfold WFMAX; lia|].
    split; [unfold WFMAX; lia|]. unfold ecs_body, bytes_ok.
    apply Forall_app. split; [apply u16b_ok|]. apply Forall_app. split; [apply u8b_ok|].
    apply Forall_app. split; [apply u8b_ok|exact Hcut]. }
  destruct (ecs_accept (sub_win (ecs_body e) k) (fam / 256 mod 256) (fam mod 256)
              (e_src e mod 256) (e_scope e mod 256) (ecs_cut e) Wsub eq_refl) as (_ & _ & _ & A & _).
  cbv zeta in A. rewrite (u16b_be fam Hfam) in A.
  replace (e_src e mod 256) with (e_src e) in A by lia.
  replace (e_scope e mod 256) with (e_scope e) in A by lia.
  assert (zero_fill fam (ecs_cut e) = e_addr e) as Z.
  { unfold ecs_cut, fam. apply zero_fill_cut; [exact W|]. unfold ecs_count. lia. }
  rewrite Z in A. rewrite A.
  - destruct e as [src scope a]. reflexivity.
  - exact F.
  - unfold ecs_cut. rewrite <- L. apply lenN_takeN_le.
  - exact P.
Qed.

(* every valid option's wire form, followed by anything, decodes to the option, and the cursor
   advances by exactly the length of the wire form *)
Lemma option_roundtrip (o : ednsopt) (s : dst) (rest : bytes) :
  opt_valid o -> dst_wf s -> d_rest s = opt_wire o ++ rest ->
  rr_edns_option s = DOk o (opt_end (lenN (opt_body o)) rest s).
Proof.
  intros V W Hr. pose proof (opt_body_len o V) as HL.
  apply option_frame with (cd := opt_code o); [exact W| | | |exact HL|].
  - rewrite Hr. unfold opt_wire. rewrite <- !app_assoc. reflexivity.
  - destruct o; reflexivity.
  - destruct o; cbn [opt_code]; lia.
  - destruct o as [e|c|n]; cbn [opt_code opt_body].
    + apply ecs_branch. exact V.
    + apply cookie_branch. exact V.
    + apply padding_branch. exact V.
Qed.

Lemma opt_wire_len o : lenN (opt_wire o) = 4 + lenN (opt_body o).
Proof. unfold opt_wire. rewrite !lenN_app, !lenN_u16b. lia. Qed.

Lemma opt_wire_ok o : opt_valid o -> bytes_ok (opt_wire o).
Proof.
  intro V. unfold opt_wire, bytes_ok. apply Forall_app. split; [apply u16b_ok|].
  apply Forall_app. split; [apply u16b_ok|].
  destruct o as [e|c|n]; cbn [opt_body opt_valid] in *.
  - destruct V as ([W _] & _). unfold ecs_body.
    apply Forall_app. split; [apply u16b_ok|]. apply Forall_app. split; [apply u8b_ok|].
    apply Forall_app. split; [apply u8b_ok|]. unfold ecs_cut. apply bytes_ok_takeN. exact (proj2 W).
  - destruct V as (_ & H2 & H3). unfold cookie_body. apply Forall_app. split; [exact H2|].
    destruct (c_server c); [exact (proj2 H3)|constructor].
  - apply zeros_bytes_ok.
Qed.
