(* C06, name layer: wire form of literal labels, the literal-segment lemma for the reference
   semantics (Spec/Names.v), the ghost mask and the masked invariant InvM of the encoder state. *)
From DNS Require Import Model.Enc Spec.Names Proofs.ListN.
Require Import ZArith ZifyBool ZifyN ZifyNat.
Local Open Scope N_scope.
Ltac Zify.zify_post_hook ::= Z.div_mod_to_equations.

(* ---- unfolding equations of the reference semantics ---- *)
Lemma seg_S f buf o : seg (S f) buf o =
    match nthN o buf with
    | None => None
    | Some l =>
      if l =? 0 then Some ([], None, o + 1)
      else if 192 <=? l then
        match nthN (o + 1) buf with
        | Some l2 => Some ([], Some ((l - 192) * 256 + l2), o + 2)
        | None => None
        end
      else if l <? 64 then
        let lab := takeN l (dropN (o + 1) buf) in
        if lenN lab =? l then
          match seg f buf (o + 1 + l) with
          | Some (ls, t, e) => Some (lab :: ls, t, e)
          | None => None
          end
        else None
      else None
    end.
Proof. reflexivity. Qed.

Lemma expand_eq h buf o : expand h buf o =
  match seg SEGFUEL buf o with
  | None => None
  | Some (ls, None, e) => Some {| x_name := ls; x_hops := 0; x_ptrs := []; x_end := e |}
  | Some (ls, Some t, e) =>
    match h with
    | O => None
    | S h' =>
      match expand h' buf t with
      | Some x => Some {| x_name := ls ++ x_name x; x_hops := S (x_hops x);
                          x_ptrs := (e - 2, t) :: x_ptrs x; x_end := e |}
      | None => None
      end
    end
  end.
Proof. destruct h; reflexivity. Qed.

Lemma SEGFUEL_val : SEGFUEL = 130%nat. Proof. reflexivity. Qed.
Global Opaque SEGFUEL.

(* ---- legal names ---- *)
Definition label_ok (l : label) : Prop := 1 <= lenN l /\ lenN l <= 63 /\ bytes_ok l.
Definition name_ok (n : name) : Prop := Forall label_ok n /\ name_wire_len n <= 255.

Lemma labels_total_app a b : labels_total (a ++ b) = labels_total a + labels_total b.
Proof. induction a as [|x a IH]; cbn [app labels_total]; [reflexivity|]. rewrite IH. lia. Qed.

Lemma labels_count n : Forall label_ok n -> 2 * lenN n <= labels_total n.
Proof.
  induction 1 as [|l r [H1 _] _ IH]; cbn [labels_total]; [cbn; lia|].
  rewrite lenN_cons. lia.
Qed.

Lemma name_ok_fuel n : name_ok n -> (length n < SEGFUEL)%nat.
Proof.
  intros [H1 H2]. rewrite SEGFUEL_val. apply labels_count in H1.
  unfold name_wire_len in H2. unfold lenN in H1. lia.
Qed.

(* ---- wire form of a run of literal labels ---- *)
Fixpoint enc_labels (ls : list label) : bytes :=
  match ls with [] => [] | l :: r => lenN l :: l ++ enc_labels r end.

Lemma enc_labels_app a b : enc_labels (a ++ b) = enc_labels a ++ enc_labels b.
Proof.
  induction a as [|x a IH]; cbn [app enc_labels]; [reflexivity|].
  rewrite IH, <- app_assoc. reflexivity.
Qed.

Lemma lenN_enc_labels ls : lenN (enc_labels ls) = labels_total ls.
Proof.
  induction ls as [|l r IH]; cbn [enc_labels labels_total]; [reflexivity|].
  rewrite lenN_cons, lenN_app, IH. lia.
Qed.

(* what follows the literal labels: the root octet or a pointer *)
Definition tail_ok (tail : bytes) (t : option N) : Prop :=
  match t with
  | None => tail = [0]
  | Some o => o <= 16383 /\ tail = u16b (N.lor ENC_COMPRESSION_BITS o)
  end.

Lemma seg_literal ls : forall fuel pre tail post t,
  Forall label_ok ls -> tail_ok tail t -> (length ls < fuel)%nat ->
  seg fuel (pre ++ enc_labels ls ++ tail ++ post) (lenN pre)
  = Some (ls, t, lenN pre + lenN (enc_labels ls) + lenN tail).
Proof.
  induction ls as [|l r IH]; intros fuel pre tail post t Hok Ht Hf.
  - destruct fuel as [|f]; [cbn [length] in Hf; lia|]. rewrite seg_S. cbn [enc_labels app].
    destruct t as [o|]; cbn [tail_ok] in Ht.
    + destruct Ht as [Ho ->]. destruct (ptr_bytes o Ho) as (h & l2 & -> & Hh0 & Hh & Hv).
      cbn [app]. rewrite nthN_mid.
      destruct (h =? 0) eqn:E0; [apply N.eqb_eq in E0; lia|].
      destruct (192 <=? h) eqn:E2; [|apply N.leb_gt in E2; lia].
      replace (lenN pre + 1) with (lenN (pre ++ [h])) by (rewrite lenN_app; reflexivity).
      replace (pre ++ h :: l2 :: post) with ((pre ++ [h]) ++ l2 :: post) by (rewrite <- app_assoc; reflexivity).
      rewrite nthN_mid. rewrite Hv. cbn [lenN length]. do 2 apply f_equal. unfold lenN; cbn [length]; lia.
    + subst tail. cbn [app]. rewrite nthN_mid. cbn [N.eqb]. cbn [lenN length]. do 2 apply f_equal. unfold lenN; cbn [length]; lia.
  - destruct fuel as [|f]; [cbn [length] in Hf; lia|].
    inversion Hok as [|? ? [Hl1 [Hl2 Hb]] Hr]; subst.
    rewrite seg_S. cbn [enc_labels].
    replace (pre ++ (lenN l :: l ++ enc_labels r) ++ tail ++ post)
       with (pre ++ lenN l :: (l ++ enc_labels r ++ tail ++ post))
       by (cbn [app]; rewrite <- !app_assoc; reflexivity).
    rewrite nthN_mid.
    destruct (lenN l =? 0) eqn:E0; [apply N.eqb_eq in E0; lia|].
    destruct (192 <=? lenN l) eqn:E1; [apply N.leb_le in E1; lia|].
    destruct (lenN l <? 64) eqn:E2; [|apply N.ltb_ge in E2; lia].
    cbv zeta.
    replace (lenN pre + 1) with (lenN (pre ++ [lenN l])) by (rewrite lenN_app; reflexivity).
    replace (pre ++ lenN l :: l ++ enc_labels r ++ tail ++ post)
       with ((pre ++ [lenN l]) ++ l ++ (enc_labels r ++ tail ++ post))
       by (rewrite <- !app_assoc; reflexivity).
    rewrite takeN_dropN_mid. rewrite N.eqb_refl.
    replace (lenN (pre ++ [lenN l]) + lenN l) with (lenN ((pre ++ [lenN l]) ++ l))
       by (rewrite !lenN_app; reflexivity).
    replace ((pre ++ [lenN l]) ++ l ++ enc_labels r ++ tail ++ post)
       with (((pre ++ [lenN l]) ++ l) ++ enc_labels r ++ tail ++ post)
       by (rewrite <- !app_assoc; reflexivity).
    rewrite (IH f _ tail post t Hr Ht) by (cbn [length] in Hf; lia).
    do 2 apply f_equal. repeat rewrite lenN_app. repeat rewrite lenN_cons. repeat rewrite lenN_app. unfold lenN; cbn [length]; lia.
Qed.

(* ---- label starts of the literal run that begins at p ---- *)
Inductive lit_reach (b : bytes) : N -> N -> Prop :=
| lr_here p l : nthN p b = Some l -> 1 <= l -> l <= 63 -> lit_reach b p p
| lr_step p q l : nthN p b = Some l -> 1 <= l -> l <= 63 -> lit_reach b (p + 1 + l) q -> lit_reach b p q.

Lemma lit_reach_le b p q : lit_reach b p q -> p <= q.
Proof. induction 1; lia. Qed.

Ltac norm_app := repeat ((rewrite <- app_assoc) || (progress cbn [app])).

Lemma lit_reach_literal a : forall pre l rest,
  Forall label_ok a -> 1 <= l -> l <= 63 ->
  lit_reach (pre ++ enc_labels a ++ l :: rest) (lenN pre) (lenN (pre ++ enc_labels a)).
Proof.
  induction a as [|x a IH]; intros pre l rest Ha Hl1 Hl2.
  - cbn [enc_labels app]. rewrite app_nil_r.
    eapply lr_here; [apply nthN_mid|exact Hl1|exact Hl2].
  - inversion Ha as [|? ? [H1 [H2 _]] Hr]; subst.
    cbn [enc_labels]. norm_app.
    eapply lr_step; [apply nthN_mid|exact H1|exact H2|].
    specialize (IH (pre ++ lenN x :: x) l rest Hr Hl1 Hl2).
    replace (lenN pre + 1 + lenN x) with (lenN (pre ++ lenN x :: x)) by (rewrite lenN_app, lenN_cons; lia).
    revert IH. norm_app. intros IH. exact IH.
Qed.

(* ---- ghost mask ---- *)
(* b' is at least as long as b and equal to b at every masked position *)
Definition agree (mask : list bool) (b b' : bytes) : Prop :=
  (length b <= length b')%nat /\
  forall i, nth_opt i mask = Some true -> nth_opt i b' = nth_opt i b.

Lemma agree_refl mask b : agree mask b b.
Proof. split; [lia|reflexivity]. Qed.

Lemma agree_app mask m2 b w b' :
  length mask = length b -> agree (mask ++ m2) (b ++ w) b' -> agree mask b b'.
Proof.
  intros HL [H1 H2]. split; [rewrite app_length in H1; lia|].
  intros i Hi. pose proof (nth_opt_some_lt _ _ _ Hi) as Hlt.
  rewrite H2 by (rewrite nth_opt_app_l by exact Hlt; exact Hi).
  apply nth_opt_app_l. lia.
Qed.

(* an agreeing buffer contains the masked suffix verbatim *)
Lemma agree_split mask b w b' :
  length mask = length b -> agree (mask ++ repeat true (length w)) (b ++ w) b' ->
  exists b1 rest, b' = b1 ++ w ++ rest /\ length b1 = length b.
Proof.
  intros HL [H1 H2]. rewrite app_length in H1.
  exists (firstn (length b) b'), (skipn (length w) (skipn (length b) b')).
  assert (length (firstn (length b) b') = length b) as HL1 by (rewrite firstn_length; lia).
  split; [|exact HL1].
  rewrite <- (firstn_skipn (length b) b') at 1. f_equal.
  rewrite <- (firstn_skipn (length w) (skipn (length b) b')) at 1. f_equal.
  apply nth_opt_ext.
  - rewrite firstn_length, skipn_length. lia.
  - intros i Hi. rewrite firstn_length, skipn_length in Hi.
    rewrite nth_opt_firstn by lia. rewrite nth_opt_skipn.
    rewrite H2.
    + rewrite nth_opt_app_r by lia. f_equal. lia.
    + rewrite nth_opt_app_r by lia. apply nth_opt_repeat. lia.
Qed.

(* ---- the masked invariant ---- *)
(* a pointer goes backwards, below 16384, to a label start of the literal run of a logged name *)
Definition ptr_ok (log : list (N * name)) (b' : bytes) (pt : N * N) : Prop :=
  snd pt < fst pt /\ snd pt <= 16383 /\
  exists p n, In (p, n) log /\ lit_reach b' p (snd pt).

Definition entry_ok (log : list (N * name)) (b' : bytes) (e : name * (N * N)) : Prop :=
  exists x, expand (N.to_nat (snd (snd e))) b' (fst (snd e)) = Some x /\
            x_hops x = N.to_nat (snd (snd e)) /\
            name_eqb (fst e) (x_name x) = true /\
            Forall (ptr_ok log b') (x_ptrs x) /\
            exists p n, In (p, n) log /\ lit_reach b' p (fst (snd e)).

Definition logged_ok (log : list (N * name)) (b' : bytes) (e : N * name) : Prop :=
  exists x, expand 16 b' (fst e) = Some x /\
            (x_hops x <= 16)%nat /\
            name_eqb (snd e) (x_name x) = true /\
            Forall (ptr_ok log b') (x_ptrs x).

Definition idx_bounded (len : N) (idx : list (name * (N * N))) : Prop :=
  forall k o d, In (k, (o, d)) idx -> o <= 16383 /\ d <= 16 /\ o < len.

Definition InvM (s : est) (mask : list bool) : Prop :=
  length mask = length (e_buf s) /\
  idx_bounded (lenN (e_buf s)) (e_idx s) /\
  forall b', agree mask (e_buf s) b' ->
    (forall e, In e (e_idx s) -> entry_ok (e_names s) b' e) /\
    (forall e, In e (e_names s) -> logged_ok (e_names s) b' e).

Lemma InvM_init : InvM e_init [].
Proof.
  split; [reflexivity|]. split; [intros k o d []|].
  intros b' _. split; intros e [].
Qed.

(* the invariant only looks at the masked octets: any state change that keeps index and log,
   does not shrink the buffer and does not enlarge the set of agreeing buffers preserves it *)
Lemma InvM_shrink s mask s' mask' :
  InvM s mask ->
  e_idx s' = e_idx s -> e_names s' = e_names s ->
  length mask' = length (e_buf s') ->
  lenN (e_buf s) <= lenN (e_buf s') ->
  (forall b', agree mask' (e_buf s') b' -> agree mask (e_buf s) b') ->
  InvM s' mask'.
Proof.
  intros (HL & HB & HI) Hidx Hnames HL' Hlen Hag.
  split; [exact HL'|]. rewrite Hidx, Hnames. split.
  - intros k o d Hin. destruct (HB k o d Hin) as (H1 & H2 & H3). split; [exact H1|]. split; [exact H2|lia].
  - intros b' Hb'. apply HI. apply Hag. exact Hb'.
Qed.

(* (a) appends outside the name writer: mask extended by false *)
Lemma put_preserves s mask b :
  InvM s mask ->
  exists s', put b s = EOk tt s' /\ e_buf s' = e_buf s ++ b /\
             InvM s' (mask ++ repeat false (length b)).
Proof.
  intros HI. eexists. split; [reflexivity|]. cbn [e_buf]. split; [reflexivity|].
  pose proof HI as (HL & _).
  eapply InvM_shrink; [exact HI|reflexivity|reflexivity|..]; cbn [e_buf].
  - rewrite !app_length, repeat_length. lia.
  - rewrite lenN_app. lia.
  - intros b'. apply agree_app. exact HL.
Qed.

(* (b) overwriting unmasked octets *)
Definition unmasked (mask : list bool) (i k : N) : Prop :=
  forall j, i <= j -> j < i + k -> nthN j mask = Some false.

Lemma patch_length i b buf : i + lenN b <= lenN buf -> length (patch i b buf) = length buf.
Proof.
  intros H. unfold patch, takeN, dropN. rewrite !app_length, firstn_length, skipn_length.
  unfold lenN in *. lia.
Qed.

Lemma patch_nth_outside i b buf j : i + lenN b <= lenN buf ->
  (j < N.to_nat i \/ N.to_nat (i + lenN b) <= j)%nat -> nth_opt j (patch i b buf) = nth_opt j buf.
Proof.
  intros H Hj. unfold patch, takeN, dropN. unfold lenN in H.
  assert (length (firstn (N.to_nat i) buf) = N.to_nat i) as HL1 by (rewrite firstn_length; lia).
  destruct Hj as [Hj|Hj].
  - rewrite nth_opt_app_l by lia. apply nth_opt_firstn. exact Hj.
  - rewrite nth_opt_app_r by lia. rewrite nth_opt_app_r by (unfold lenN in Hj; lia).
    rewrite nth_opt_skipn. f_equal. unfold lenN in *. lia.
Qed.

Lemma patch_preserves s mask i b :
  InvM s mask -> i + lenN b <= lenN (e_buf s) -> unmasked mask i (lenN b) ->
  InvM {| e_buf := patch i b (e_buf s); e_idx := e_idx s; e_names := e_names s |} mask.
Proof.
  intros HI Hr Hu. pose proof HI as (HL & _).
  pose proof (patch_length i b (e_buf s) Hr) as HPL.
  eapply InvM_shrink; [exact HI|reflexivity|reflexivity|..]; cbn [e_buf].
  - rewrite HPL. exact HL.
  - unfold lenN. rewrite HPL. lia.
  - intros b' [H1 H2]. split; [rewrite HPL in H1; exact H1|].
    intros j Hj. rewrite H2 by exact Hj. apply patch_nth_outside; [exact Hr|].
    destruct (Nat.lt_ge_cases j (N.to_nat i)) as [Hlt|Hge]; [left; exact Hlt|].
    destruct (Nat.lt_ge_cases j (N.to_nat (i + lenN b))) as [Hlt2|Hge2]; [|right; exact Hge2].
    exfalso. specialize (Hu (N.of_nat j)). unfold nthN in Hu. rewrite Nat2N.id in Hu.
    rewrite Hu in Hj by lia. discriminate.
Qed.

Lemma set_u16_preserves s mask v i :
  InvM s mask -> i + 2 <= lenN (e_buf s) -> unmasked mask i 2 ->
  exists s', set_u16 v i s = EOk tt s' /\ e_buf s' = patch i (u16b v) (e_buf s) /\ InvM s' mask.
Proof.
  intros HI Hr Hu. unfold set_u16.
  destruct (i + 2 - 1 <? lenN (e_buf s)) eqn:E; [|apply N.ltb_ge in E; lia].
  eexists. split; [reflexivity|]. split; [reflexivity|].
  apply patch_preserves; [exact HI|exact Hr|exact Hu].
Qed.

Lemma set_u8_preserves s mask v i :
  InvM s mask -> i + 1 <= lenN (e_buf s) -> unmasked mask i 1 ->
  exists s', set_u8 v i s = EOk tt s' /\ e_buf s' = patch i (u8b v) (e_buf s) /\ InvM s' mask.
Proof.
  intros HI Hr Hu. unfold set_u8.
  destruct (i + 1 - 1 <? lenN (e_buf s)) eqn:E; [|apply N.ltb_ge in E; lia].
  eexists. split; [reflexivity|]. split; [reflexivity|].
  apply patch_preserves; [exact HI|exact Hr|exact Hu].
Qed.
