(* C17, input side — the address reader (decode/rr/subtypes.rs) and the APL item reader
   (decode/rr/rfc_3123.rs) accept every RFC form: any number of address octets from none up to the
   family size, missing octets meaning zero; exact results, exact errors, no panic. *)
From Coq Require Import ZArith ZifyBool ZifyN ZifyNat.
From DNS Require Import Model.Values Model.Dec Proofs.DecBase Proofs.C12.
Local Open Scope N_scope.
Ltac Zify.zify_post_hook ::= Z.div_mod_to_equations.

(* ---- generated constants ---- *)
Lemma IPV4_SIZE_val : IPV4_SIZE = 4. Proof. reflexivity. Qed.
Lemma IPV6_SIZE_val : IPV6_SIZE = 16. Proof. reflexivity. Qed.
Lemma OP_ipv4_size_val : OP_ipv4_size = CLt. Proof. reflexivity. Qed.
Lemma OP_ipv6_size_val : OP_ipv6_size = CLt. Proof. reflexivity. Qed.
Lemma OP_bytes_val : OP_bytes = CLe. Proof. reflexivity. Qed.
Lemma APL_NEGATION_MASK_value : APL_NEGATION_MASK = 128. Proof. reflexivity. Qed.
Lemma ADDRESS_LENGTH_MASK_val : ADDRESS_LENGTH_MASK = 127. Proof. reflexivity. Qed.
Lemma family_table_val : AddressFamilyNumber_table = [("Ipv4"%string, 1); ("Ipv6"%string, 2)].
Proof. reflexivity. Qed.

(* ---- vocabulary ---- *)
Definition fam_size (fam : N) : N := if fam =? 1 then 4 else 16.
Definition fam_tag (fam : N) : N := if fam =? 1 then 1 else 2.
Definition fam_err (fam : N) : etag := if fam =? 1 then EEcsTooBigIpv4Address else EEcsTooBigIpv6Address.
(* the address octets [a] zero-filled to the family size *)
Definition zfill (fam : N) (a : bytes) : addr :=
  {| a_fam := fam_tag fam; a_oct := a ++ zeros (N.to_nat (fam_size fam - lenN a)) |}.
(* the state after Decoder::vec: the whole window consumed *)
Definition vec_end (s : dst) : dst :=
  {| d_rest := []; d_off := d_len s; d_len := d_len s; d_cost := d_cost s + (d_len s - d_off s) |}.

Lemma fam_tag_id fam : fam = 1 \/ fam = 2 -> fam_tag fam = fam.
Proof. intros [->| ->]; reflexivity. Qed.

Lemma lenN_zeros k : lenN (zeros k) = N.of_nat k.
Proof. unfold lenN. rewrite length_zeros. reflexivity. Qed.
Lemma zfill_wf fam a : bytes_ok a -> lenN a <= fam_size fam -> addr_wf (zfill fam a).
Proof.
  intros Hb Hl. unfold addr_wf, zfill. cbn [a_fam a_oct]. split.
  - rewrite lenN_app, lenN_zeros. unfold fam_tag, fam_size in *.
    destruct (fam =? 1); [left|right]; (split; [reflexivity|lia]).
  - apply Forall_app. split; [exact Hb|apply zeros_ok].
Qed.
Lemma zfill_size fam a : addr_size (zfill fam a) = fam_size fam.
Proof. unfold addr_size, zfill, fam_tag, fam_size. cbn [a_fam]. destruct (fam =? 1); reflexivity. Qed.

(* ---- Decoder::vec and the sized address readers ---- *)
Lemma vec_eq s : d_off s <= d_len s -> vec s = DOk (d_rest s) (vec_end s).
Proof.
  intros H. unfold vec. rewrite OP_bytes_val. cbn [cmp_apply].
  destruct (d_off s <=? d_len s) eqn:E; [reflexivity|apply N.leb_gt in E; lia].
Qed.

Lemma rr_address_sized_eq size e x s : d_off s <= d_len s ->
  rr_address_sized size CLt e x s =
    if lenN (d_rest s) <=? size
    then DOk (d_rest s ++ zeros (N.to_nat (size - lenN (d_rest s)))) (vec_end s)
    else DErr (e, [lenN (d_rest s)]) (d_cost s + (d_len s - d_off s)).
Proof.
  intros H. unfold rr_address_sized, bind. rewrite (vec_eq s H). cbv zeta. cbn [cmp_apply].
  destruct (size <? lenN (d_rest s)) eqn:E.
  - apply N.ltb_lt in E. destruct (lenN (d_rest s) <=? size) eqn:E2; [apply N.leb_le in E2; lia|].
    reflexivity.
  - apply N.ltb_ge in E. destruct (lenN (d_rest s) <=? size) eqn:E2; [|apply N.leb_gt in E2; lia].
    reflexivity.
Qed.

(* Decoder::rr_address *)
Lemma rr_address_eq fam s : d_off s <= d_len s ->
  rr_address fam s =
    if lenN (d_rest s) <=? fam_size fam then DOk (zfill fam (d_rest s)) (vec_end s)
    else DErr (fam_err fam, [lenN (d_rest s)]) (d_cost s + (d_len s - d_off s)).
Proof.
  intros H. unfold rr_address, zfill, fam_size, fam_tag, fam_err.
  destruct (fam =? 1); unfold bind.
  - rewrite OP_ipv4_size_val, IPV4_SIZE_val, (rr_address_sized_eq 4 _ _ s H).
    destruct (lenN (d_rest s) <=? 4); reflexivity.
  - rewrite OP_ipv6_size_val, IPV6_SIZE_val, (rr_address_sized_eq 16 _ _ s H).
    destruct (lenN (d_rest s) <=? 16); reflexivity.
Qed.

(* ---- exact readers on a window whose content is known ---- *)
Definition wfle (s : dst) : Prop := dst_wf s /\ d_off s <= d_len s.

Lemma takeN_app_len {A} (a b : list A) : takeN (lenN a) (a ++ b) = a.
Proof.
  unfold takeN, lenN. rewrite Nat2N.id, firstn_app, Nat.sub_diag, firstn_all. cbn [firstn]. apply app_nil_r.
Qed.
Lemma dropN_app_len {A} (a b : list A) : dropN (lenN a) (a ++ b) = b.
Proof. unfold dropN, lenN. rewrite Nat2N.id, skipn_app, Nat.sub_diag, skipn_all. reflexivity. Qed.

Lemma read_exact (s : dst) (pre rest : bytes) : wfle s -> d_rest s = pre ++ rest -> lenN pre < 256 ->
  read (lenN pre) s = DOk pre (adv (lenN pre) s) /\
  d_rest (adv (lenN pre) s) = rest /\ wfle (adv (lenN pre) s).
Proof.
  intros [W Hle] Hr Hn. pose proof W as (H1 & H2 & H3 & H4).
  assert (Hfit : d_off s + lenN pre <= d_len s).
  { rewrite Hr, lenN_app in H1. lia. }
  rewrite (read_wf _ s W Hn).
  destruct (d_off s + lenN pre <=? d_len s) eqn:E; [|apply N.leb_gt in E; lia].
  rewrite Hr, takeN_app_len. split; [reflexivity|].
  split; [unfold adv; cbn [d_rest]; rewrite Hr; apply dropN_app_len|].
  split; [apply adv_wf; assumption|]. unfold adv. cbn [d_off d_len]. exact Hfit.
Qed.

Lemma u8_exact (s : dst) (x : N) (rest : bytes) : wfle s -> d_rest s = x :: rest ->
  u8 s = DOk x (adv 1 s) /\ d_rest (adv 1 s) = rest /\ wfle (adv 1 s).
Proof.
  intros W Hr. destruct (read_exact s [x] rest W Hr) as (R1 & R2 & R3); [reflexivity|].
  change (lenN [x]) with 1 in *. split; [|split; assumption].
  unfold u8, bind. rewrite R1. reflexivity.
Qed.

Lemma u16_exact (s : dst) (x y : N) (rest : bytes) : wfle s -> d_rest s = x :: y :: rest ->
  u16 s = DOk (x * 256 + y) (adv 2 s) /\ d_rest (adv 2 s) = rest /\ wfle (adv 2 s).
Proof.
  intros W Hr. destruct (read_exact s [x; y] rest W Hr) as (R1 & R2 & R3); [reflexivity|].
  change (lenN [x; y]) with 2 in *. split; [|split; assumption].
  unfold u16, uint, bind. rewrite R1. change (lenN [x; y] =? 2) with true. cbv iota.
  unfold ret, be. cbn [be_join]. f_equal; lia.
Qed.

Lemma in_family_table v : in_table AddressFamilyNumber_table v = ((v =? 1) || (v =? 2)).
Proof.
  rewrite family_table_val. unfold in_table. cbn [existsb snd].
  rewrite (N.eqb_sym 1 v), (N.eqb_sym 2 v). destruct (v =? 1), (v =? 2); reflexivity.
Qed.

Lemma family_exact (s : dst) (x y : N) (rest : bytes) : wfle s -> d_rest s = x :: y :: rest ->
  rr_address_family_number s =
    if ((x * 256 + y =? 1) || (x * 256 + y =? 2))
    then DOk (x * 256 + y) (adv 2 s)
    else DErr (EEcsAddressNumber, [x * 256 + y]) (d_cost s + 2).
Proof.
  intros W Hr. destruct (u16_exact s x y rest W Hr) as (R1 & _ & _).
  unfold rr_address_family_number, code, bind. rewrite R1, in_family_table.
  destruct ((x * 256 + y =? 1) || (x * 256 + y =? 2)); reflexivity.
Qed.

(* let mut sub = self.sub(k)?; sub.rr_address(fam)?; sub.finished()? *)
Lemma with_sub_address (fam : N) (s : dst) (a rest : bytes) : wfle s -> d_rest s = a ++ rest -> lenN a < 256 ->
  with_sub (lenN a) (rr_address fam) s =
    if lenN a <=? fam_size fam
    then DOk (zfill fam a) {| d_rest := rest; d_off := d_off s + lenN a; d_len := d_len s;
                              d_cost := d_cost s + lenN a + lenN a |}
    else DErr (fam_err fam, [lenN a]) (d_cost s + lenN a + lenN a).
Proof.
  intros W Hr Hn. destruct (read_exact s a rest W Hr Hn) as (R1 & R2 & _).
  unfold with_sub. rewrite R1. unfold bind at 1.
  rewrite rr_address_eq by (cbn [d_off d_len]; lia). cbn [d_rest d_off d_len d_cost].
  destruct (lenN a <=? fam_size fam).
  - unfold finished, is_finished, vec_end, bind. cbn [d_rest d_off d_len d_cost].
    destruct (lenN a <? lenN a) eqn:E; [apply N.ltb_lt in E; lia|].
    rewrite N.eqb_refl. unfold ret. rewrite R2. unfold adv. cbn [d_rest d_off d_len d_cost].
    f_equal. f_equal. lia.
  - unfold adv. cbn [d_cost]. f_equal. lia.
Qed.

(* ---- the flag/length octet of an APL item ---- *)
Definition aplbyte_ok (b : N) : bool :=
  (N.land b 127 =? b mod 128) && Bool.eqb (N.land b 128 =? 128) (128 <=? b).
Lemma aplbyte_tab : forallb aplbyte_ok (Enum.nrange 256) = true.
Proof. vm_compute. reflexivity. Qed.
Lemma aplbyte b : b < 256 -> N.land b 127 = b mod 128 /\ (N.land b 128 =? 128) = (128 <=? b).
Proof.
  intros H. pose proof aplbyte_tab as T. rewrite forallb_forall in T.
  specialize (T b (Enum.nrange_in 256 b H)). unfold aplbyte_ok in T.
  apply andb_true_iff in T. destruct T as [T1 T2]. apply N.eqb_eq in T1. apply Bool.eqb_prop in T2.
  split; assumption.
Qed.
Definition negbit (neg : bool) : N := if neg then 128 else 0.
Lemma aplbyte_split neg k : k < 128 ->
  N.land (negbit neg + k) ADDRESS_LENGTH_MASK = k /\
  (N.land (negbit neg + k) APL_NEGATION_MASK =? APL_NEGATION_MASK) = neg.
Proof.
  intros Hk. rewrite ADDRESS_LENGTH_MASK_val, APL_NEGATION_MASK_value.
  assert (Hb : negbit neg + k < 256) by (unfold negbit; destruct neg; lia).
  destruct (aplbyte _ Hb) as [-> ->]. unfold negbit. destruct neg.
  - split; [lia|]. apply N.leb_le. lia.
  - split; [lia|]. apply N.leb_gt. lia.
Qed.

(* ---- Decoder::rr_apl_apitem, exactly ---- *)
Definition apitem_result (s : dst) (fam p : N) (neg : bool) (a rest : bytes) : dres apitem :=
  if (fam =? 1) || (fam =? 2) then
    if lenN a <=? fam_size fam then
      match check_prefix (zfill fam a) p with
      | Ok _ => DOk {| i_prefix := p; i_neg := neg; i_addr := zfill fam a |}
                    {| d_rest := rest; d_off := d_off s + (4 + lenN a); d_len := d_len s;
                       d_cost := d_cost s + (4 + 2 * lenN a) |}
      | Err e => DErr e (d_cost s + (4 + 2 * lenN a))
      | Panic x => DPanic x
      | OutOfFuel => DFuel
      end
    else DErr (fam_err fam, [lenN a]) (d_cost s + (4 + 2 * lenN a))
  else DErr (EEcsAddressNumber, [fam]) (d_cost s + 2).

Lemma rr_apl_apitem_eq (s : dst) (fh fl p : N) (neg : bool) (a rest : bytes) :
  dst_wf s -> lenN a < 128 ->
  d_rest s = fh :: fl :: p :: (negbit neg + lenN a) :: a ++ rest ->
  rr_apl_apitem s = apitem_result s (fh * 256 + fl) p neg a rest.
Proof.
  intros W Hk Hr.
  assert (W0 : wfle s).
  { split; [exact W|]. destruct W as (H1 & _). rewrite Hr, !lenN_cons in H1. lia. }
  set (fam := fh * 256 + fl).
  unfold rr_apl_apitem, apitem_result. unfold bind at 1.
  rewrite (family_exact s fh fl _ W0 Hr). fold fam.
  destruct (u16_exact s fh fl _ W0 Hr) as (_ & R2 & W2).
  destruct ((fam =? 1) || (fam =? 2)); [|reflexivity].
  destruct (u8_exact _ p _ W2 R2) as (U1 & R3 & W3).
  unfold bind at 1. rewrite U1.
  destruct (u8_exact _ (negbit neg + lenN a) _ W3 R3) as (U2 & R4 & W4).
  unfold bind at 1. rewrite U2. cbv zeta.
  destruct (aplbyte_split neg (lenN a) Hk) as [-> ->].
  unfold bind. rewrite (with_sub_address fam _ a rest W4 R4) by lia.
  destruct (lenN a <=? fam_size fam).
  - unfold apitem_new. destruct (check_prefix (zfill fam a) p) as [u|e|x|]; cbn [lift].
    + unfold ret, adv. cbn [d_rest d_off d_len d_cost]. f_equal. f_equal; lia.
    + unfold fail, adv. cbn [d_rest d_off d_len d_cost]. f_equal. lia.
    + reflexivity.
    + reflexivity.
  - unfold adv. cbn [d_cost]. f_equal. lia.
Qed.

(* ---- Decoder::rr_edns_ecs on an option body (the address is the rest of the window), exactly ---- *)
Definition ecs_result (s : dst) (fam src scope : N) (a : bytes) : dres ecs :=
  if (fam =? 1) || (fam =? 2) then
    if lenN a <=? fam_size fam then
      match ecs_new src scope (zfill fam a) with
      | Ok e => DOk e {| d_rest := []; d_off := d_off s + (4 + lenN a); d_len := d_len s;
                         d_cost := d_cost s + (4 + lenN a) |}
      | Err e => DErr e (d_cost s + (4 + lenN a))
      | Panic x => DPanic x
      | OutOfFuel => DFuel
      end
    else DErr (fam_err fam, [lenN a]) (d_cost s + (4 + lenN a))
  else DErr (EEcsAddressNumber, [fam]) (d_cost s + 2).

Lemma rr_edns_ecs_eq (s : dst) (fh fl src scope : N) (a : bytes) :
  dst_wf s -> d_rest s = fh :: fl :: src :: scope :: a ->
  rr_edns_ecs s = ecs_result s (fh * 256 + fl) src scope a.
Proof.
  intros W Hr.
  assert (Hlen : d_len s = d_off s + (4 + lenN a)).
  { destruct W as (H1 & _). rewrite Hr, !lenN_cons in H1. lia. }
  assert (W0 : wfle s) by (split; [exact W|lia]).
  set (fam := fh * 256 + fl).
  unfold rr_edns_ecs, ecs_result. unfold bind at 1.
  rewrite (family_exact s fh fl _ W0 Hr). fold fam.
  destruct (u16_exact s fh fl _ W0 Hr) as (_ & R2 & W2).
  destruct ((fam =? 1) || (fam =? 2)); [|reflexivity].
  destruct (u8_exact _ src _ W2 R2) as (U1 & R3 & W3).
  unfold bind at 1. rewrite U1.
  destruct (u8_exact _ scope _ W3 R3) as (U2 & R4 & W4).
  unfold bind at 1. rewrite U2.
  unfold bind. rewrite rr_address_eq by (apply W4). rewrite R4.
  destruct (lenN a <=? fam_size fam).
  - destruct (ecs_new src scope (zfill fam a)) as [e|e|x|]; cbn [lift].
    + unfold ret, vec_end, adv. cbn [d_rest d_off d_len d_cost]. f_equal. f_equal; lia.
    + unfold fail, vec_end, adv. cbn [d_rest d_off d_len d_cost]. f_equal. lia.
    + reflexivity.
    + reflexivity.
  - unfold adv. cbn [d_rest d_off d_len d_cost]. f_equal. lia.
Qed.
