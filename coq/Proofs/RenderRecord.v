(* C04 (renderings) — resource records: the record frame (owner, TYPE, CLASS, TTL, RDLENGTH, RDATA) for any
   RDATA acceptance lemma, and the RDATA of the plain types of the format table. *)
From Coq Require Import ZArith ZifyBool ZifyN ZifyNat.
From DNS Require Import Model.Dec Model.Enc Spec.Names Spec.Iana Spec.Wire Spec.Render
  Proofs.ListN Proofs.DecBase Proofs.Enum Proofs.EncTyped Proofs.CorrFields Proofs.CorrRecord
  Proofs.RtBase Proofs.RtPrim Proofs.RtFields Proofs.RtRecord
  Proofs.RenderBase Proofs.RenderName Proofs.RenderFields.
Local Open Scope N_scope.
Ltac Zify.zify_post_hook ::= Z.div_mod_to_equations.

(* what an RDATA acceptance lemma provides for the record [r] *)
Definition rdata_ok (r : rr) : Prop :=
  forall (pre wd : bytes) (owner' : name),
    renders_rdata pre (r_type r) (r_data r) wd -> name_eqv owner' (r_name r) -> lenN wd <= 65535 ->
    bytes_ok wd /\
    exists r', acc true (rdata_of (r_type r) (wire_class r) (wire_ttl r) owner') pre wd r' /\ rr_eqv r' r.

Lemma record_acc_gen (pre : bytes) (r : rr) (w : bytes) :
  rdata_ok r -> name_wf (r_name r) = true -> in_table Type_table (r_type r) = true ->
  wire_class r < 65536 -> wire_ttl r < 4294967296 ->
  renders_rr pre r w -> lenN w <= 65535 ->
  bytes_ok w /\ exists r', acc false record pre w r' /\ rr_eqv r' r.
Proof.
  intros Hd Hn Ht Hc Hl Hr Hlen. inversion Hr as [r0 wn wd Hwn Hwd]; subst. clear Hr.
  destruct (renders_name_acc pre (r_name r) wn Hwn Hn) as (Hbn & owner' & Ho & Eo).
  pose proof (type_table_bound _ Ht) as Htb.
  assert (lenN wd < 65536) as Hdl by (lenN_norm_in Hlen; lia).
  destruct (Hd _ wd owner' Hwd Eo ltac:(lia)) as (Hbd & r' & Hr' & Er).
  split.
  { apply bytes_ok_app; [exact Hbn|]. apply bytes_ok_app; [|exact Hbd]. unfold rr_head.
    apply bytes_ok_app; [apply be16_ok; lia|]. apply bytes_ok_app; [apply be16_ok; lia|].
    apply bytes_ok_app; [apply be32_ok; lia|apply be16_ok; lia]. }
  exists r'. split; [|exact Er].
  unfold record. apply (acc_bind false pname _ pre wn _ owner' r' Ho).
  unfold rr_head. rewrite <- !app_assoc.
  apply (acc_bind false (num 2) _ _ _ _ (r_type r) r'); [apply acc_num2; lia|].
  apply (acc_bind false (num 2) _ _ _ _ (wire_class r) r'); [apply acc_num2; lia|].
  apply (acc_bind false (num 4) _ _ _ _ (wire_ttl r) r'); [apply acc_num4; lia|].
  apply (acc_bind false (num 2) _ _ _ _ (lenN wd) r'); [apply acc_num2; lia|].
  rewrite <- tab_Type, Ht. apply acc_within; [reflexivity|].
  eapply acc_pre_eq; [|exact Hr']. unfold rr_head. rewrite <- !app_assoc. reflexivity.
Qed.

(* ---- plain types: the format table ---- *)
Definition fmt_tails_ok (t : N) : bool := match fmt t with Some ks => tails_last ks | None => true end.
Lemma fmt_tails_all : forallb fmt_tails_ok (codes iana_Type) = true.
Proof. vm_compute. reflexivity. Qed.
Lemma fmt_tails (t : N) (ks : list sk) : mem t (codes iana_Type) = true -> fmt t = Some ks -> tails_last ks = true.
Proof.
  intros Hm Hf. apply mem_In in Hm.
  pose proof (proj1 (forallb_forall _ _) fmt_tails_all t Hm) as H. unfold fmt_tails_ok in H. rewrite Hf in H. exact H.
Qed.

Lemma class_one : mem 1 (codes iana_Class) = true. Proof. vm_compute. reflexivity. Qed.

Lemma rdata_plain_ok (r : rr) (ec : encclass) (f : list (string * fk)) :
  lookup (r_type r) enc_dispatch = Some (WrFields ec f) -> plain_wf r = true -> rdata_ok r.
Proof.
  intros Hlk Hwf pre wd owner' Hwd Eo _.
  unfold plain_wf in Hwf. rewrite Hlk in Hwf. apply andb_true_iff in Hwf. destruct Hwf as [Hc Hwf].
  destruct (common_wf_inv r Hc) as (Hn & Ht & Httl).
  destruct r as [t nm cls ttl d]. cbn [r_type r_name r_class r_ttl r_data] in *.
  destruct d as [vals| | | ]; try discriminate.
  apply andb_true_iff in Hwf. destruct Hwf as [Hv Hcls].
  pose proof Ht as Hmem. rewrite tab_Type in Hmem.
  pose proof (entry_agrees_lookup t _ Hlk) as Hea. unfold entry_agrees in Hea. rewrite Hlk in Hea.
  destruct Hea as (ck & Hdec & Hcm & _ & _).
  pose proof (disp_ok_type t Hmem) as Hd. unfold disp_ok in Hd. rewrite Hdec in Hd.
  destruct Hd as (ks & Hfmt & Hmap & Hsp & Hio).
  assert (dec_value_fields t = filter (fun p => has_value (snd p)) f) as Evf
    by (unfold dec_value_fields; rewrite Hdec; reflexivity).
  rewrite Evf in Hv.
  inversion Hwd as [t0 ks0 vs0 w0 Hf0 Hfs| | | | ]; subst. rewrite Hfmt in Hf0. injection Hf0 as <-.
  destruct (fields_acc f ks pre vals wd Hmap (fmt_tails t ks Hmem Hfmt) Hfs Hv) as (Hb & vs' & Hvs' & Ev).
  split; [exact Hb|].
  exists {| r_type := t; r_name := owner'; r_class := cls; r_ttl := ttl; r_data := RFields vs' |}.
  split; [|unfold rr_eqv; cbn [r_type r_name r_class r_ttl r_data rdata_eqv];
           split; [reflexivity|split; [exact Eo|split; [reflexivity|split; [reflexivity|exact Ev]]]]].
  cbn [wire_class wire_ttl r_data r_class r_ttl].
  apply (acc_ext true _ _ pre wd _ (fun b s e => rdata_plain t cls ttl owner' ks b s e Hsp Hfmt)).
  apply acc_bind_nil with (x := cls).
  - intros b s e. unfold class_spec.
    destruct ec; destruct ck; try discriminate.
    + rewrite <- tab_Class, Hcls, Hio. reflexivity.
    + apply N.eqb_eq in Hcls. subst cls. rewrite class_one. cbn [negb N.eqb Pos.eqb andb].
      rewrite andb_false_r. reflexivity.
  - apply (acc_bind_last' true (fields ks) _ pre wd vs' _ Hvs'). apply acc_ret.
Qed.

Lemma record_plain_acc (pre : bytes) (r : rr) (w : bytes) :
  plain_wf r = true -> renders_rr pre r w -> lenN w <= 65535 ->
  bytes_ok w /\ exists r', acc false record pre w r' /\ rr_eqv r' r.
Proof.
  intros Hwf Hr Hlen. pose proof Hwf as Hwf0.
  unfold plain_wf in Hwf. apply andb_true_iff in Hwf. destruct Hwf as [Hc Hwf].
  destruct (common_wf_inv r Hc) as (Hn & Ht & Httl).
  destruct (lookup (r_type r) enc_dispatch) as [[ec f|sp]|] eqn:Hlk; try discriminate.
  destruct (r_data r) as [vals| | | ] eqn:Ed; try discriminate.
  apply andb_true_iff in Hwf. destruct Hwf as [Hv Hcls].
  apply (record_acc_gen pre r w (rdata_plain_ok r ec f Hlk Hwf0) Hn Ht); [| |exact Hr|exact Hlen].
  - unfold wire_class. rewrite Ed. destruct ec; [apply class_table_bound; exact Hcls|lia].
  - unfold wire_ttl. rewrite Ed. exact Httl.
Qed.
