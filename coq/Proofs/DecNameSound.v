(* Soundness of the name reader with respect to the reference semantics Spec.Names.expand. *)
From Coq Require Import ZifyBool ZifyN ZifyNat.
From DNS Require Import Model.Dec Spec.Names Proofs.DecBase Proofs.DecName Proofs.DecNameSpec.
Local Open Scope N_scope.

Lemma SEGFUEL_ok : 256 <= 2 * N.of_nat SEGFUEL.
Proof. vm_compute. discriminate. Qed.
Global Opaque SEGFUEL.

(* ---- a window state that shows the octets of [main] from absolute offset [a] on ---- *)
Definition views (main : bytes) (s : dst) (a : N) : Prop :=
  d_rest s = takeN (d_len s - d_off s) (dropN a main).

Lemma jump_views main t c : views main (jump main t c) t.
Proof.
  unfold views, jump. cbn [d_rest d_off d_len]. symmetry. apply takeN_all. rewrite lenN_dropN. lia.
Qed.
Lemma mk_main_views main : views main (mk_main main) 0.
Proof.
  unfold views, mk_main. cbn [d_rest d_off d_len]. rewrite dropN_0. symmetry. apply takeN_all. lia.
Qed.
Lemma adv_views main s a n : views main s a -> d_off s + n <= d_len s -> views main (adv n s) (a + n).
Proof.
  unfold views, adv. cbn [d_rest d_off d_len]. intros -> H.
  rewrite dropN_takeN, dropN_dropN. f_equal. lia.
Qed.
Lemma view_nth main s a i : views main s a -> d_off s + i < d_len s ->
  nthN i (d_rest s) = nthN (a + i) main.
Proof. unfold views. intros -> H. rewrite nthN_takeN by lia. apply nthN_dropN. Qed.
Lemma view_nth0 main s a : views main s a -> d_off s + 1 <= d_len s ->
  nthN 0 (d_rest s) = nthN a main.
Proof. intros V H. rewrite (view_nth main s a 0 V) by lia. f_equal. lia. Qed.
Lemma view_take main s a n : views main s a -> d_off s + n <= d_len s ->
  takeN n (d_rest s) = takeN n (dropN a main).
Proof. unfold views. intros -> H. apply takeN_takeN. lia. Qed.

(* ---- unfolding of the reference ---- *)
Lemma seg_S f buf o : seg (S f) buf o =
    match nthN o buf with
    | None => None
    | Some l =>
      if l =? 0 then Some ([], None, o + 1)
      else if 192 <=? l then
        match nthN (o + 1) buf with
        | Some l2 => Some ([], Some ((l - 192) * 256 + l2), o + 2)
        | None => None
        end
      else if l <? 64 then
        let lab := takeN l (dropN (o + 1) buf) in
        if lenN lab =? l then
          match seg f buf (o + 1 + l) with
          | Some (ls, t, e) => Some (lab :: ls, t, e)
          | None => None
          end
        else None
      else None
    end.
Proof. reflexivity. Qed.

Definition seg_res := option (list label * option N * N).
Definition seg_cons (lab : label) (r : seg_res) : seg_res :=
  match r with Some (ls, t, e) => Some (lab :: ls, t, e) | None => None end.

Lemma seg_done k buf p : nthN p buf = Some 0 -> seg (S k) buf p = Some ([], None, p + 1).
Proof. intro H. rewrite seg_S, H. reflexivity. Qed.
Lemma seg_ptr k buf p len b : nthN p buf = Some len -> 192 <= len -> nthN (p + 1) buf = Some b ->
  seg (S k) buf p = Some ([], Some (target len b), p + 2).
Proof.
  intros H H1 H2. rewrite seg_S, H, H2.
  destruct (len =? 0) eqn:E0; [lia|]. destruct (192 <=? len) eqn:E1; [|lia]. reflexivity.
Qed.
Lemma seg_lab k buf p len : nthN p buf = Some len -> 1 <= len -> len < 64 ->
  lenN (takeN len (dropN (p + 1) buf)) = len ->
  seg (S k) buf p = seg_cons (takeN len (dropN (p + 1) buf)) (seg k buf (p + 1 + len)).
Proof.
  intros H H1 H2 H3. rewrite seg_S, H.
  destruct (len =? 0) eqn:E0; [lia|]. destruct (192 <=? len) eqn:E1; [lia|].
  destruct (len <? 64) eqn:E2; [|lia]. cbv zeta. rewrite H3, N.eqb_refl. reflexivity.
Qed.

Definition x_ptr (ls : list label) (t e : N) (x : expansion) : expansion :=
  {| x_name := ls ++ x_name x; x_hops := S (x_hops x); x_ptrs := (e - 2, t) :: x_ptrs x; x_end := e |}.
Definition x_lit (ls : list label) (e : N) : expansion :=
  {| x_name := ls; x_hops := 0; x_ptrs := []; x_end := e |}.

Definition expand_with (r : seg_res) (hops : nat) (buf : bytes) : option expansion :=
  match r with
  | None => None
  | Some (ls, None, e) => Some (x_lit ls e)
  | Some (ls, Some t, e) =>
    match hops with
    | O => None
    | S h => match expand h buf t with Some x => Some (x_ptr ls t e x) | None => None end
    end
  end.
Lemma expand_unfold h buf o : expand h buf o = expand_with (seg SEGFUEL buf o) h buf.
Proof. destruct h; reflexivity. Qed.

Definition x_cons (lab : label) (x : expansion) : expansion :=
  {| x_name := lab :: x_name x; x_hops := x_hops x; x_ptrs := x_ptrs x; x_end := x_end x |}.
Lemma expand_with_cons lab r h buf x :
  expand_with r h buf = Some x -> expand_with (seg_cons lab r) h buf = Some (x_cons lab x).
Proof.
  destruct r as [[[ls [t|]] e]|]; cbn [seg_cons expand_with]; try discriminate.
  - destruct h as [|h]; [discriminate|]. destruct (expand h buf t) as [x0|]; [|discriminate].
    intro E. injection E as <-. reflexivity.
  - intro E. injection E as <-. reflexivity.
Qed.

Definition targets (x : expansion) : list N := map snd (x_ptrs x).

Section Main.
Variable main : bytes.
Hypothesis Hb : bytes_ok main.
Hypothesis Hm : lenN main < WFMAX.

Lemma rec_loop_sound : forall f nm recs len s p n rs s',
  dst_wf s -> views main s (p + 1) -> nthN p main = Some len -> tl nm <= 254 ->
  rec_loop_g f main nm recs len s = DOk (n, rs) s' ->
  forall k, 256 <= tl nm + 2 * N.of_nat k ->
  exists x, expand_with (seg k main p) (16 - length recs) main = Some x /\
            n = nm ++ x_name x /\ rs = rev (targets x) ++ recs.
Proof.
  induction f as [|f IH]; intros nm recs len s p n rs s' W V Hp Ht E k Hk; [discriminate|].
  assert (Hl : len < 256) by (eapply bytes_ok_nth; eauto).
  destruct (rec_step main f nm recs len s Hb Hm W Hl) as (o & Hs & Er). rewrite Er in E. clear Er.
  destruct k as [|k]; [lia|].
  inversion Hs; subst; cbn [rec_run] in E; try discriminate.
  - (* terminator *)
    injection E as <- <- <-. rewrite (seg_done k main p Hp). cbn [expand_with].
    exists (x_lit [] (p + 1)). split; [reflexivity|]. split; [symmetry; apply app_nil_r|reflexivity].
  - (* pointer *)
    assert (Hb1 : nthN (p + 1) main = Some b).
    { rewrite <- (view_nth0 main s (p + 1) V) by lia. assumption. }
    rewrite (seg_ptr k main p len b Hp) by assumption.
    assert (Ht' : target len b < 16384) by (apply target_lt; lia).
    destruct (IH nm (target len b :: recs) l (jump main (target len b + 1) (d_cost s + 2))
                 (target len b) n rs s') with (k := SEGFUEL) as (x & X1 & X2 & X3); try assumption.
    + apply jump_wf; try assumption. unfold WFMAX. lia.
    + apply jump_views.
    + pose proof SEGFUEL_ok. lia.
    + rewrite <- expand_unfold in X1. cbn [length] in X1.
      assert (Hrl : lenN recs = N.of_nat (length recs)) by reflexivity.
      replace (16 - length recs)%nat with (S (16 - S (length recs))) by lia.
      cbn [expand_with]. rewrite X1.
      exists (x_ptr [] (target len b) (p + 2) x). split; [reflexivity|].
      split; [exact X2|]. rewrite X3. unfold targets. cbn [x_ptr x_ptrs map snd rev].
      rewrite <- app_assoc. reflexivity.
  - (* label *)
    match goal with HL : lab_step _ _ _ _ |- _ => pose proof (lab_step_inv _ _ _ _ _ _ HL) as HI end.
    destruct HI as (I1 & I2 & I3 & I4 & I5 & I6 & I7 & I8 & _).
    assert (Hlab : takeN len (d_rest s) = takeN len (dropN (p + 1) main))
      by (apply view_take; [exact V|lia]).
    rewrite (seg_lab k main p len Hp) by (try rewrite <- Hlab; assumption).
    rewrite <- Hlab.
    destruct (IH (nm ++ [takeN len (d_rest s)]) recs l (adv (len + 1) s) (p + 1 + len) n rs s')
      with (k := k) as (x & X1 & X2 & X3); try assumption.
    + apply adv_wf; [exact W|lia].
    + replace (p + 1 + len + 1) with (p + 1 + (len + 1)) by lia. apply adv_views; [exact V|lia].
    + rewrite <- (view_nth main s (p + 1) len V) by lia. assumption.
    + rewrite tl_snoc, I4. lia.
    + rewrite tl_snoc, I4. lia.
    + exists (x_cons (takeN len (d_rest s)) x).
      split; [apply expand_with_cons; exact X1|].
      split; [rewrite X2, <- app_assoc; reflexivity|exact X3].
Qed.

Lemma name_loop_sound : forall f nm len s p n tg s',
  dst_wf s -> views main s (p + 1) -> nthN p main = Some len -> tl nm <= 254 ->
  name_loop_g f main nm len s = DOk (n, tg) s' ->
  forall k, 256 <= tl nm + 2 * N.of_nat k ->
  exists x, expand_with (seg k main p) 17 main = Some x /\
            n = nm ++ x_name x /\ tg = targets x /\ x_end x + d_off s = p + 1 + d_off s'.
Proof.
  induction f as [|f IH]; intros nm len s p n tg s' W V Hp Ht E k Hk; [discriminate|].
  assert (Hl : len < 256) by (eapply bytes_ok_nth; eauto).
  destruct (name_step main f nm len s Hb Hm W Hl) as (o & Hs & Er). rewrite Er in E. clear Er.
  destruct k as [|k]; [lia|].
  inversion Hs; subst; cbn [name_run] in E; try discriminate.
  - (* terminator *)
    injection E as <- <- <-. rewrite (seg_done k main p Hp). cbn [expand_with].
    exists (x_lit [] (p + 1)). split; [reflexivity|]. split; [symmetry; apply app_nil_r|].
    split; reflexivity.
  - (* pointer *)
    assert (Hb1 : nthN (p + 1) main = Some b).
    { rewrite <- (view_nth0 main s (p + 1) V) by lia. assumption. }
    rewrite (seg_ptr k main p len b Hp) by assumption.
    assert (Ht' : target len b < 16384) by (apply target_lt; lia).
    unfold jump_run in E.
    destruct (rec_loop_g NAMEFUEL main nm [] l (jump main (target len b + 1) (d_cost s + 2)))
      as [[nm' rs] ds| | |] eqn:ER; try discriminate.
    injection E as <- <- <-.
    destruct (rec_loop_sound NAMEFUEL nm [] l (jump main (target len b + 1) (d_cost s + 2))
                 (target len b) nm' rs ds) with (k := SEGFUEL) as (x & X1 & X2 & X3); try assumption.
    + apply jump_wf; try assumption. unfold WFMAX. lia.
    + apply jump_views.
    + pose proof SEGFUEL_ok. lia.
    + rewrite <- expand_unfold in X1. cbn [length] in X1.
      replace 17%nat with (S (16 - 0)) by reflexivity.
      cbn [expand_with]. rewrite X1.
      exists (x_ptr [] (target len b) (p + 2) x). split; [reflexivity|].
      split; [exact X2|]. rewrite X3, app_nil_r, rev_involutive.
      split; [reflexivity|]. cbn [x_ptr x_end set_cost adv d_off]. lia.
  - (* label *)
    match goal with HL : lab_step _ _ _ _ |- _ => pose proof (lab_step_inv _ _ _ _ _ _ HL) as HI end.
    destruct HI as (I1 & I2 & I3 & I4 & I5 & I6 & I7 & I8 & _).
    assert (Hlab : takeN len (d_rest s) = takeN len (dropN (p + 1) main))
      by (apply view_take; [exact V|lia]).
    rewrite (seg_lab k main p len Hp) by (try rewrite <- Hlab; assumption).
    rewrite <- Hlab.
    destruct (IH (nm ++ [takeN len (d_rest s)]) l (adv (len + 1) s) (p + 1 + len) n tg s')
      with (k := k) as (x & X1 & X2 & X3 & X4); try assumption.
    + apply adv_wf; [exact W|lia].
    + replace (p + 1 + len + 1) with (p + 1 + (len + 1)) by lia. apply adv_views; [exact V|lia].
    + rewrite <- (view_nth main s (p + 1) len V) by lia. assumption.
    + rewrite tl_snoc, I4. lia.
    + rewrite tl_snoc, I4. lia.
    + exists (x_cons (takeN len (d_rest s)) x).
      split; [apply expand_with_cons; exact X1|].
      split; [rewrite X2, <- app_assoc; reflexivity|].
      split; [exact X3|]. cbn [x_cons x_end adv d_off] in *. lia.
Qed.

Theorem domain_name_g_sound s a n tg s' : dst_wf s -> views main s a ->
  domain_name_g main s = DOk (n, tg) s' ->
  exists x, expand 17 main a = Some x /\ x_name x = n /\ targets x = tg /\
            x_end x + d_off s = a + d_off s'.
Proof.
  intros W V. unfold domain_name_g, bind.
  destruct (u8_wf s W) as [(Ho & b & Hn & Hb256 & Hu)|(Ho & Hu)]; rewrite Hu; [|discriminate].
  intro E.
  assert (Ha : nthN a main = Some b).
  { rewrite <- (view_nth0 main s a V) by lia. exact Hn. }
  destruct (name_loop_sound NAMEFUEL [] b (adv 1 s) a n tg s') with (k := SEGFUEL)
    as (x & X1 & X2 & X3 & X4); try assumption.
  - apply adv_wf; [exact W|lia].
  - apply adv_views; [exact V|lia].
  - rewrite tl_nil. lia.
  - rewrite tl_nil. pose proof SEGFUEL_ok. lia.
  - rewrite <- expand_unfold in X1. exists x. split; [exact X1|].
    split; [rewrite X2; reflexivity|]. split; [symmetry; exact X3|].
    cbn [adv d_off] in X4. lia.
Qed.
End Main.
