(* C14 — Encoding and decoding are deterministic pure functions.

   What a Gallina model can carry of this property:
   - The model functions ARE functions: the same argument gives the same result, no input is
     modified, there is no thread, no clock and no shared state.  That part is true by construction
     of the modelling language; a statement like [forall b, dec_Dns b = dec_Dns b] would be
     vacuous and is therefore NOT stated as a theorem (remark C14_functions below).
   - The one place where the Rust code consults per-instance randomness is the iteration order
     of std HashMap / HashSet (RandomState).  The model fixes ONE order (association lists).
     This file proves that every other order gives the same observable behaviour:
       * the encoder's compression index is observed only through [idx_lookup]; merging the
         local table of one name in ANY order gives a lookup-equivalent index, because the keys
         of that table are pairwise different (suffixes of one name with different label counts);
       * every encoder primitive respects lookup-equivalence of states, hence so do the name
         writer, the question writer, the record writers and the message writer;
       * the decoder's visited set is observed only through membership and length, which are
         invariant under permutation. *)
From Coq Require Import Permutation.
From DNS Require Import Model.Enc Model.Dec Proofs.ListN Proofs.NameLoop.
Require Import ZArith ZifyBool ZifyN ZifyNat.
Local Open Scope N_scope.

(* ------------------------------------------------------------------------------------------ *)
(* 1. equivalences                                                                            *)
(* ------------------------------------------------------------------------------------------ *)
Definition idx_equiv (i j : list (name * (N * N))) : Prop :=
  forall n : name, idx_lookup n i = idx_lookup n j.

Definition st_equiv (s t : est) : Prop :=
  e_buf s = e_buf t /\ idx_equiv (e_idx s) (e_idx t) /\ e_names s = e_names t.

Definition res_equiv {A} (r1 r2 : eres A) : Prop :=
  match r1, r2 with
  | EOk a s, EOk b t => a = b /\ st_equiv s t
  | EErr e, EErr e' => e = e'
  | EPanic x, EPanic y => x = y
  | EIllTyped, EIllTyped => True
  | _, _ => False
  end.

(* two computations that cannot be told apart from equivalent states *)
Definition rel2 {A} (m1 m2 : EM A) : Prop :=
  forall s t, st_equiv s t -> res_equiv (m1 s) (m2 t).
Definition respects {A} (m : EM A) : Prop := rel2 m m.

Lemma idx_equiv_refl i : idx_equiv i i.
Proof. intros n. reflexivity. Qed.
Lemma idx_equiv_sym i j : idx_equiv i j -> idx_equiv j i.
Proof. intros H n. symmetry. apply H. Qed.
Lemma idx_equiv_trans i j k : idx_equiv i j -> idx_equiv j k -> idx_equiv i k.
Proof. intros H1 H2 n. rewrite H1. apply H2. Qed.

Lemma st_equiv_refl s : st_equiv s s.
Proof. split; [reflexivity|]. split; [apply idx_equiv_refl|reflexivity]. Qed.
Lemma st_equiv_sym s t : st_equiv s t -> st_equiv t s.
Proof. intros (H1 & H2 & H3). split; [congruence|]. split; [apply idx_equiv_sym; exact H2|congruence]. Qed.
Lemma st_equiv_trans s t u : st_equiv s t -> st_equiv t u -> st_equiv s u.
Proof.
  intros (H1 & H2 & H3) (K1 & K2 & K3). split; [congruence|].
  split; [eapply idx_equiv_trans; eassumption|congruence].
Qed.

Lemma res_equiv_refl {A} (r : eres A) : res_equiv r r.
Proof. destruct r; cbn [res_equiv]; try reflexivity. split; [reflexivity|apply st_equiv_refl]. Qed.
Lemma res_equiv_sym {A} (r1 r2 : eres A) : res_equiv r1 r2 -> res_equiv r2 r1.
Proof.
  destruct r1, r2; cbn [res_equiv]; try congruence; try tauto.
  intros [H1 H2]. split; [congruence|apply st_equiv_sym; exact H2].
Qed.
Lemma res_equiv_trans {A} (r1 r2 r3 : eres A) : res_equiv r1 r2 -> res_equiv r2 r3 -> res_equiv r1 r3.
Proof.
  destruct r1, r2, r3; cbn [res_equiv]; try congruence; try tauto.
  intros [H1 H2] [K1 K2]. split; [congruence|eapply st_equiv_trans; eassumption].
Qed.

(* res_equiv in words: the same kind of outcome *)
Lemma res_equiv_cases {A} (r1 r2 : eres A) : res_equiv r1 r2 <->
  (exists a s t, r1 = EOk a s /\ r2 = EOk a t /\ st_equiv s t) \/
  (exists e, r1 = EErr e /\ r2 = EErr e) \/
  (exists x, r1 = EPanic x /\ r2 = EPanic x) \/
  (r1 = EIllTyped /\ r2 = EIllTyped).
Proof.
  split.
  - destruct r1 as [a s|e|x|], r2 as [b t|e'|y|]; cbn [res_equiv]; try contradiction.
    + intros [-> H]. left. exists b, s, t. split; [reflexivity|]. split; [reflexivity|exact H].
    + intros ->. right. left. exists e'. split; reflexivity.
    + intros ->. right. right. left. exists y. split; reflexivity.
    + intros _. right. right. right. split; reflexivity.
  - intros [(a & s & t & -> & -> & H)|[(e & -> & ->)|[(x & -> & ->)|[-> ->]]]]; cbn [res_equiv].
    + split; [reflexivity|exact H].
    + reflexivity.
    + reflexivity.
    + exact I.
Qed.

(* equivalent outcomes give the same bytes through the public entry points *)
Definition eres_bytes {A} (r : eres A) : res bytes :=
  match r with
  | EOk _ s => Ok (e_buf s)
  | EErr e => Err e
  | EPanic x => Panic x
  | EIllTyped => OutOfFuel
  end.
Lemma res_equiv_bytes {A} (r1 r2 : eres A) : res_equiv r1 r2 -> eres_bytes r1 = eres_bytes r2.
Proof.
  destruct r1, r2; cbn [res_equiv eres_bytes]; try contradiction; try congruence.
  intros [_ (H & _)]. rewrite H. reflexivity.
Qed.
Lemma erun_bytes (m : EM unit) : erun m = eres_bytes (m e_init).
Proof. reflexivity. Qed.
Lemma rel2_erun (m1 m2 : EM unit) : rel2 m1 m2 -> erun m1 = erun m2.
Proof. intros H. rewrite !erun_bytes. apply res_equiv_bytes. apply H. apply st_equiv_refl. Qed.

(* ------------------------------------------------------------------------------------------ *)
(* 2. the order in which one local table is merged is irrelevant                              *)
(* ------------------------------------------------------------------------------------------ *)
Lemma idx_lookup_app n a : forall b,
  idx_lookup n (a ++ b) = match idx_lookup n a with Some v => Some v | None => idx_lookup n b end.
Proof.
  induction a as [|[k v] a IH]; intros b; cbn [app idx_lookup]; [reflexivity|].
  destruct (name_eqb n k); [reflexivity|apply IH].
Qed.

Lemma idx_equiv_app a a' b b' : idx_equiv a a' -> idx_equiv b b' -> idx_equiv (a ++ b) (a' ++ b').
Proof. intros H1 H2 n. rewrite !idx_lookup_app, H1, H2. reflexivity. Qed.

(* keys pairwise different up to ASCII case: what a HashMap<DomainName, _> guarantees *)
Fixpoint keys_distinct (l : list (name * N)) : Prop :=
  match l with
  | [] => True
  | p :: r => (forall q, In q r -> name_eqb (fst p) (fst q) = false) /\ keys_distinct r
  end.

Lemma name_eqb_false_sym (a b : name) : name_eqb a b = false -> name_eqb b a = false.
Proof.
  intros H. destruct (name_eqb b a) eqn:E; [|reflexivity].
  apply name_eqb_sym in E. congruence.
Qed.

Lemma name_eqb_length (a : name) : forall b : name, name_eqb a b = true -> length a = length b.
Proof.
  induction a as [|x a IH]; intros [|y b]; try (cbn; congruence).
  rewrite name_eqb_cons, andb_true_iff. intros [_ H]. cbn [length]. f_equal. apply IH. exact H.
Qed.

Lemma idx_lookup_tag_cons n D (p : name * N) l :
  idx_lookup n (map (tag D) (p :: l)) =
  if name_eqb n (fst p) then Some (snd p, D) else idx_lookup n (map (tag D) l).
Proof. reflexivity. Qed.

Lemma merge_perm D (l l' : list (name * N)) : Permutation l l' -> keys_distinct l ->
  keys_distinct l' /\ idx_equiv (map (tag D) l) (map (tag D) l').
Proof.
  induction 1 as [|x l l' HP IH|x y l|l l' l'' HP1 IH1 HP2 IH2]; intros HD.
  - split; [exact I|apply idx_equiv_refl].
  - destruct HD as [Hx Hl]. destruct (IH Hl) as [Hl' He]. split.
    + split; [|exact Hl']. intros q Hq. apply Hx. eapply Permutation_in; [apply Permutation_sym; exact HP|exact Hq].
    + intros n. rewrite !idx_lookup_tag_cons, (He n). reflexivity.
  - destruct HD as [Hy [Hx Hl]]. split.
    + split; [|split; [|exact Hl]].
      * intros q [Hq|Hq]; [subst q; apply name_eqb_false_sym; apply Hy; left; reflexivity|apply Hx; exact Hq].
      * intros q Hq. apply Hy. right. exact Hq.
    + intros n. rewrite !idx_lookup_tag_cons.
      destruct (name_eqb n (fst y)) eqn:E1; [|reflexivity].
      destruct (name_eqb n (fst x)) eqn:E2; [|reflexivity].
      exfalso. assert (name_eqb (fst y) (fst x) = true) as E.
      { eapply name_eqb_trans; [apply name_eqb_sym; exact E1|exact E2]. }
      rewrite (Hy x (or_introl eq_refl)) in E. discriminate.
  - destruct (IH1 HD) as [H1 E1]. destruct (IH2 H1) as [H2 E2].
    split; [exact H2|eapply idx_equiv_trans; eassumption].
Qed.

Lemma keys_distinct_perm (l l' : list (name * N)) : Permutation l l' -> keys_distinct l -> keys_distinct l'.
Proof. intros HP HD. exact (proj1 (merge_perm 0 l l' HP HD)). Qed.

Theorem merge_order_irrelevant : forall (local local' : list (name * N)) (D : N) (idx : list (name * (N * N))),
  keys_distinct local -> Permutation local local' ->
  idx_equiv (map (tag D) local ++ idx) (map (tag D) local' ++ idx).
Proof.
  intros l l' D idx HD HP. apply idx_equiv_app; [|apply idx_equiv_refl].
  exact (proj2 (merge_perm D l l' HP HD)).
Qed.

(* with duplicate keys the order DOES matter: the premise cannot be dropped *)
Definition dup12 : list (name * N) := [([], 1); ([], 2)].
Definition dup21 : list (name * N) := [([], 2); ([], 1)].
Lemma merge_order_needs_distinct :
  Permutation dup12 dup21 /\ ~ idx_equiv (map (tag 0) dup12) (map (tag 0) dup21).
Proof. split; [apply perm_swap|]. intros H. specialize (H []). cbn in H. discriminate. Qed.

(* ------------------------------------------------------------------------------------------ *)
(* 4a. closure of [rel2] under the monad                                                      *)
(* ------------------------------------------------------------------------------------------ *)
Lemma rel2_bind {A B} (m1 m2 : EM A) (f1 f2 : A -> EM B) :
  rel2 m1 m2 -> (forall a, rel2 (f1 a) (f2 a)) -> rel2 (ebind m1 f1) (ebind m2 f2).
Proof.
  intros Hm Hf s t Hst. unfold ebind. specialize (Hm s t Hst).
  destruct (m1 s) as [a s'|e|x|], (m2 t) as [b t'|e'|y|]; cbn [res_equiv] in Hm; try contradiction; try exact Hm.
  destruct Hm as [-> Hs']. apply Hf. exact Hs'.
Qed.
Lemma rel2_ret {A} (a : A) : rel2 (eret a) (eret a).
Proof. intros s t H. cbn [eret res_equiv]. split; [reflexivity|exact H]. Qed.
Lemma rel2_fail {A} (e : err) : rel2 (@efail A e) (efail e).
Proof. intros s t H. reflexivity. Qed.
Lemma rel2_panic {A} (x : site) : rel2 (fun _ : est => @EPanic A x) (fun _ => EPanic x).
Proof. intros s t H. reflexivity. Qed.
Lemma rel2_ill {A} : rel2 (fun _ : est => @EIllTyped A) (fun _ => EIllTyped).
Proof. intros s t H. exact I. Qed.
Lemma rel2_emap {A} (f1 f2 : A -> EM unit) (l : list A) :
  (forall a, rel2 (f1 a) (f2 a)) -> rel2 (emap f1 l) (emap f2 l).
Proof.
  intros H. induction l as [|x l IH]; cbn [emap]; [apply rel2_ret|].
  apply rel2_bind; [apply H|intros _; exact IH].
Qed.
Lemma rel2_sym {A} (m1 m2 : EM A) : rel2 m1 m2 -> rel2 m2 m1.
Proof. intros H s t Hst. apply res_equiv_sym. apply H. apply st_equiv_sym. exact Hst. Qed.
Lemma rel2_trans {A} (m1 m2 m3 : EM A) : rel2 m1 m2 -> rel2 m2 m3 -> rel2 m1 m3.
Proof.
  intros H1 H2 s t Hst. eapply res_equiv_trans; [apply H1; exact Hst|]. apply H2. apply st_equiv_refl.
Qed.
(* pointwise equal computations may be exchanged *)
Lemma rel2_ext {A} (m1 m1' m2 m2' : EM A) :
  (forall s, m1 s = m1' s) -> (forall s, m2 s = m2' s) -> rel2 m1' m2' -> rel2 m1 m2.
Proof. intros E1 E2 H s t Hst. rewrite E1, E2. apply H. exact Hst. Qed.

(* ------------------------------------------------------------------------------------------ *)
(* 4b. every encoder primitive respects state equivalence                                     *)
(* ------------------------------------------------------------------------------------------ *)
Lemma respects_put (b : bytes) : respects (put b).
Proof.
  intros s t (H1 & H2 & H3). unfold put. cbn [res_equiv]. split; [reflexivity|].
  split; [cbn [e_buf]; rewrite H1; reflexivity|]. split; [exact H2|exact H3].
Qed.
Lemma respects_eu8 (n : N) : respects (eu8 n). Proof. apply respects_put. Qed.
Lemma respects_eu16 (n : N) : respects (eu16 n). Proof. apply respects_put. Qed.
Lemma respects_eu32 (n : N) : respects (eu32 n). Proof. apply respects_put. Qed.
Lemma respects_eu64 (n : N) : respects (eu64 n). Proof. apply respects_put. Qed.

Lemma respects_buf_len : respects buf_len.
Proof.
  intros s t H. unfold buf_len. cbn [res_equiv]. destruct H as (H1 & H2 & H3).
  split; [rewrite H1; reflexivity|]. split; [exact H1|]. split; [exact H2|exact H3].
Qed.

Lemma respects_get_offset : respects get_offset.
Proof.
  unfold get_offset. apply rel2_bind; [apply respects_buf_len|]. intros n.
  destruct (n <? POW16); [apply rel2_ret|apply rel2_fail].
Qed.

Lemma respects_set_u16 (n index : N) : respects (set_u16 n index).
Proof.
  intros s t (H1 & H2 & H3). unfold set_u16. cbv zeta. rewrite H1.
  destruct (index + 2 - 1 <? lenN (e_buf t)); cbn [res_equiv]; [|reflexivity].
  split; [reflexivity|]. split; [reflexivity|]. split; [exact H2|exact H3].
Qed.
Lemma respects_set_u8 (n index : N) : respects (set_u8 n index).
Proof.
  intros s t (H1 & H2 & H3). unfold set_u8. cbv zeta. rewrite H1.
  destruct (index + 1 - 1 <? lenN (e_buf t)); cbn [res_equiv]; [|reflexivity].
  split; [reflexivity|]. split; [reflexivity|]. split; [exact H2|exact H3].
Qed.

Lemma respects_estring (b : bytes) : respects (estring b).
Proof.
  unfold estring. cbv zeta. destruct (cmp_apply OP_string_len (lenN b) STRING_MAX); [apply rel2_fail|].
  apply rel2_bind; [apply respects_eu8|intros _; apply respects_put].
Qed.

Lemma respects_create_length_index : respects create_length_index.
Proof.
  unfold create_length_index. apply rel2_bind; [apply respects_buf_len|]. intros i.
  apply rel2_bind; [apply respects_eu16|]. intros _. apply rel2_ret.
Qed.

Lemma respects_set_length_index (li : N) : respects (set_length_index li).
Proof.
  unfold set_length_index. apply rel2_bind; [apply respects_buf_len|]. intros len.
  destruct (len <? li + 2); [apply rel2_panic|]. cbv zeta.
  destruct (len - (li + 2) <? POW16); [apply respects_set_u16|apply rel2_fail].
Qed.

Lemma respects_compress (suffix : name) : respects (compress suffix).
Proof.
  intros s t Hst. pose proof Hst as (H1 & H2 & H3). unfold compress. rewrite (H2 suffix).
  destruct (idx_lookup suffix (e_idx t)) as [[index recursion]|].
  - destruct (cmp_apply OP_compress_offset ENC_MAX_OFFSET index); [reflexivity|].
    destruct (cmp_apply OP_compress_rec recursion DOMAIN_NAME_MAX_RECURSION).
    + cbn [res_equiv]. split; [reflexivity|exact Hst].
    + revert s t Hst H1 H2 H3. intros s t Hst _ _ _. revert s t Hst.
      apply rel2_bind; [apply respects_eu16|]. intros _. apply rel2_ret.
  - cbn [res_equiv]. split; [reflexivity|exact Hst].
Qed.

(* merging two lookup-equivalent tagged tables *)
Lemma rel2_merge_index (l l' : list (name * N)) (r : N) :
  idx_equiv (map (tag r) l) (map (tag r) l') -> rel2 (merge_index l r) (merge_index l' r).
Proof.
  intros HE s t (H1 & H2 & H3). unfold merge_index.
  destruct (cmp_apply OP_merge_rec r DOMAIN_NAME_MAX_RECURSION); [reflexivity|].
  cbn [res_equiv]. split; [reflexivity|]. split; [exact H1|]. split; [|exact H3].
  cbn [e_idx]. apply idx_equiv_app; [exact HE|exact H2].
Qed.
Lemma respects_merge_index (l : list (name * N)) (r : N) : respects (merge_index l r).
Proof. apply rel2_merge_index. apply idx_equiv_refl. Qed.

Lemma respects_elabel (l : label) : respects (elabel l).
Proof.
  unfold elabel. apply rel2_bind; [apply respects_get_offset|]. intros i.
  apply rel2_bind; [apply respects_estring|]. intros _. apply rel2_ret.
Qed.

Lemma respects_log_name (n : name) : respects (log_name n).
Proof.
  intros s t (H1 & H2 & H3). unfold log_name. cbn [res_equiv]. split; [reflexivity|].
  split; [exact H1|]. split; [exact H2|]. cbn [e_names]. rewrite H1, H3. reflexivity.
Qed.

(* ------------------------------------------------------------------------------------------ *)
(* 3. the name writer with an arbitrary merge, and with an arbitrary iteration order          *)
(* ------------------------------------------------------------------------------------------ *)
(* [enc_name_loop] with the merge step abstracted *)
Fixpoint enc_name_loop_gen (mrg : list (name * N) -> N -> EM unit) (labels : name) (local : list (name * N)) : EM unit :=
  match labels with
  | [] => _ <-- estring [] ;; mrg local 0
  | l :: rest =>
    r <-- compress labels ;;
    match r with
    | Some recursion => mrg local (recursion + 1)
    | None =>
      index <-- elabel l ;;
      enc_name_loop_gen mrg rest (if cmp_apply OP_index_offset index ENC_MAX_OFFSET then (labels, index) :: local else local)
    end
  end.

Lemma enc_name_loop_gen_eq (labels : name) : forall (local : list (name * N)) (s : est),
  enc_name_loop_gen merge_index labels local s = enc_name_loop labels local s.
Proof.
  induction labels as [|l rest IH]; intros local s; [reflexivity|].
  cbn [enc_name_loop_gen enc_name_loop]. unfold ebind.
  destruct (compress (l :: rest) s) as [[r|] s1| | |]; try reflexivity.
  destruct (elabel l s1) as [i s2| | |]; try reflexivity. apply IH.
Qed.

Definition is_suffix (k n : name) : Prop := exists pre : name, n = pre ++ k.

(* the invariant of the loop: [labels] is a suffix of the name being written; the keys of the
   local table are pairwise different suffixes of it, each longer than [labels] *)
Definition local_inv (n labels : name) (local : list (name * N)) : Prop :=
  is_suffix labels n /\ keys_distinct local /\
  forall p, In p local -> is_suffix (fst p) n /\ (length labels < length (fst p))%nat.

Definition local_ok (n : name) (local : list (name * N)) : Prop :=
  keys_distinct local /\ forall p, In p local -> is_suffix (fst p) n.

Lemma local_inv_ok n labels local : local_inv n labels local -> local_ok n local.
Proof. intros (_ & H1 & H2). split; [exact H1|]. intros p Hp. exact (proj1 (H2 p Hp)). Qed.

Lemma local_inv_init n : local_inv n n [].
Proof. split; [exists []; reflexivity|]. split; [exact I|]. intros p []. Qed.

Lemma local_inv_step n (l : label) (rest : name) local (b : bool) (index : N) :
  local_inv n (l :: rest) local ->
  local_inv n rest (if b then (l :: rest, index) :: local else local).
Proof.
  intros ([pre Hpre] & HD & HL).
  assert (Hs : is_suffix rest n).
  { exists (pre ++ [l]). rewrite <- app_assoc. exact Hpre. }
  split; [exact Hs|]. destruct b.
  - split.
    + split; [|exact HD]. intros q Hq. cbn [fst].
      destruct (name_eqb (l :: rest) (fst q)) eqn:E; [|reflexivity].
      apply name_eqb_length in E. destruct (HL q Hq) as [_ HLq]. lia.
    + intros p [Hp|Hp].
      * subst p. cbn [fst length]. split; [exists pre; exact Hpre|lia].
      * destruct (HL p Hp) as [H1 H2]. split; [exact H1|]. cbn [length] in H2. lia.
  - split; [exact HD|]. intros p Hp. destruct (HL p Hp) as [H1 H2]. split; [exact H1|].
    cbn [length] in H2. lia.
Qed.

(* every local table that reaches the merge step has pairwise different keys (all suffixes of
   the name): two merge functions that agree on such tables give the same loop *)
Lemma loop_gen_rel2 (n : name) (mrg1 mrg2 : list (name * N) -> N -> EM unit) :
  (forall local r, local_ok n local -> rel2 (mrg1 local r) (mrg2 local r)) ->
  forall labels local, local_inv n labels local ->
    rel2 (enc_name_loop_gen mrg1 labels local) (enc_name_loop_gen mrg2 labels local).
Proof.
  intros Hm. induction labels as [|l rest IH]; intros local HI; cbn [enc_name_loop_gen].
  - apply rel2_bind; [apply respects_estring|]. intros _. apply Hm. eapply local_inv_ok; exact HI.
  - apply rel2_bind; [apply respects_compress|]. intros [r|].
    + apply Hm. eapply local_inv_ok; exact HI.
    + apply rel2_bind; [apply respects_elabel|]. intros index. apply IH. apply local_inv_step. exact HI.
Qed.

Lemma loop_gen_eq (n : name) (mrg1 mrg2 : list (name * N) -> N -> EM unit) :
  (forall local r s, local_ok n local -> mrg1 local r s = mrg2 local r s) ->
  forall labels local s, local_inv n labels local ->
    enc_name_loop_gen mrg1 labels local s = enc_name_loop_gen mrg2 labels local s.
Proof.
  intros Hm. induction labels as [|l rest IH]; intros local s HI; cbn [enc_name_loop_gen]; unfold ebind.
  - destruct (estring [] s) as [u s1| | |]; try reflexivity. apply Hm. eapply local_inv_ok; exact HI.
  - destruct (compress (l :: rest) s) as [[r|] s1| | |]; try reflexivity.
    + apply Hm. eapply local_inv_ok; exact HI.
    + destruct (elabel l s1) as [i s2| | |]; try reflexivity. apply IH. apply local_inv_step. exact HI.
Qed.

(* the statement of "the local table always has pairwise distinct keys": replacing the merge by
   ANY function that agrees with it on tables with pairwise distinct suffix keys changes nothing *)
Theorem local_keys_distinct : forall (n : name) (mrg : list (name * N) -> N -> EM unit),
  (forall local r s, keys_distinct local -> (forall p, In p local -> is_suffix (fst p) n) ->
                     mrg local r s = merge_index local r s) ->
  forall s, enc_name_loop_gen mrg n [] s = enc_name_loop n [] s.
Proof.
  intros n mrg H s. rewrite <- enc_name_loop_gen_eq. apply (loop_gen_eq n); [|apply local_inv_init].
  intros local r s0 [H1 H2]. apply H; assumption.
Qed.

Section Order.
  (* the iteration order of the local HashMap: any function returning a permutation *)
  Variable perm : list (name * N) -> list (name * N).
  Hypothesis perm_ok : forall l, Permutation l (perm l).

  Fixpoint enc_name_loop_ord (labels : name) (local : list (name * N)) : EM unit :=
    match labels with
    | [] => _ <-- estring [] ;; merge_index (perm local) 0
    | l :: rest =>
      r <-- compress labels ;;
      match r with
      | Some recursion => merge_index (perm local) (recursion + 1)
      | None =>
        index <-- elabel l ;;
        enc_name_loop_ord rest (if cmp_apply OP_index_offset index ENC_MAX_OFFSET then (labels, index) :: local else local)
      end
    end.
  Definition enc_domain_name_ord (n : name) : EM unit := _ <-- log_name n ;; enc_name_loop_ord n [].

  Lemma enc_name_loop_ord_gen (labels : name) : forall (local : list (name * N)) (s : est),
    enc_name_loop_ord labels local s = enc_name_loop_gen (fun l r => merge_index (perm l) r) labels local s.
  Proof.
    induction labels as [|l rest IH]; intros local s; [reflexivity|].
    cbn [enc_name_loop_gen enc_name_loop_ord]. unfold ebind.
    destruct (compress (l :: rest) s) as [[r|] s1| | |]; try reflexivity.
    destruct (elabel l s1) as [i s2| | |]; try reflexivity. apply IH.
  Qed.

  Lemma name_loop_order (n : name) :
    rel2 (enc_name_loop n []) (enc_name_loop_ord n []).
  Proof.
    eapply rel2_ext; [intros s; symmetry; apply enc_name_loop_gen_eq|apply enc_name_loop_ord_gen|].
    apply (loop_gen_rel2 n); [|apply local_inv_init].
    intros local r [HD _]. apply rel2_merge_index.
    exact (proj2 (merge_perm r local (perm local) (perm_ok local) HD)).
  Qed.

  Lemma name_writer_order (n : name) : rel2 (enc_domain_name n) (enc_domain_name_ord n).
  Proof.
    unfold enc_domain_name, enc_domain_name_ord.
    apply rel2_bind; [apply respects_log_name|]. intros _. apply name_loop_order.
  Qed.
End Order.

Lemma enc_domain_name_ord_id (n : name) (s : est) :
  enc_domain_name_ord (fun l => l) n s = enc_domain_name n s.
Proof.
  (* the two fixpoints have the same body up to beta *)
  reflexivity.
Qed.

Theorem respects_enc_domain_name (n : name) : respects (enc_domain_name n).
Proof.
  eapply rel2_ext; [reflexivity|intros s; symmetry; apply enc_domain_name_ord_id|].
  apply name_writer_order. intros l. apply Permutation_refl.
Qed.

(* two encoder instances with two different seeds *)
Theorem name_writer_two_orders (perm1 perm2 : list (name * N) -> list (name * N)) :
  (forall l, Permutation l (perm1 l)) -> (forall l, Permutation l (perm2 l)) ->
  forall n : name, rel2 (enc_domain_name_ord perm1 n) (enc_domain_name_ord perm2 n).
Proof.
  intros H1 H2 n. eapply rel2_trans; [apply rel2_sym; apply name_writer_order; exact H1|].
  apply name_writer_order. exact H2.
Qed.

Theorem name_writer_independent_of_order : forall (perm : list (name * N) -> list (name * N)),
  (forall l, Permutation l (perm l)) ->
  forall (n : name) (s t : est), st_equiv s t ->
    res_equiv (enc_domain_name n s) (enc_domain_name_ord perm n t).
Proof. intros perm H n. exact (name_writer_order perm H n). Qed.

(* the merged states themselves *)
Theorem merge_states_equiv : forall (local local' : list (name * N)) (r : N) (s t : est),
  keys_distinct local -> Permutation local local' -> st_equiv s t ->
  res_equiv (merge_index local r s) (merge_index local' r t).
Proof.
  intros l l' r s t HD HP. apply rel2_merge_index. exact (proj2 (merge_perm r l l' HP HD)).
Qed.

(* ------------------------------------------------------------------------------------------ *)
(* 4c. the encoder parametrised by the name writer                                            *)
(* ------------------------------------------------------------------------------------------ *)
Section WithNameWriter.
  Variable wn : name -> EM unit.

  Definition write_field_with (k : fk) (v : option fv) : EM unit :=
    match k, v with
    | FU8, Some (VN n) => eu8 n
    | FU16, Some (VN n) => eu16 n
    | FU32, Some (VN n) => eu32 n
    | FU64, Some (VN n) => eu64 n
    | FName, Some (VName n) => wn n
    | FStr, Some (VBytes s) | FStrPsdn, Some (VBytes s) | FStrIsdn, Some (VBytes s)
    | FStrGpos, Some (VBytes s) | FTag, Some (VBytes s) => estring s
    | FRest, Some (VBytes b) | FRestUtf8, Some (VBytes b) => put b
    | FIp4, Some (VN n) => eu32 n
    | FIp6, Some (VBytes b) => put b
    | FEnum8 _ _, Some (VN n) => eu8 n
    | FEnum16 _ _, Some (VN n) => eu16 n
    | FOptStrSa, Some (VOptStr o) => match o with Some s => estring s | None => eret tt end
    | FStrs1, Some (VStrs l) => emap estring l
    | FDnskeyFlags, Some (VN n) => eu16 n
    | FConst8 c _, _ => eu8 c
    | _, _ => fun _ => EIllTyped
    end.

  Fixpoint write_fields_with (names : list string) (vals : list fv) (f : list (string * fk)) : EM unit :=
    match f with
    | [] => eret tt
    | (nm, k) :: r => _ <-- write_field_with k (assoc nm names vals) ;; write_fields_with names vals r
    end.

  Definition enc_rr_with (r : rr) : EM unit :=
    match lookup (r_type r) enc_dispatch with
    | Some (WrFields ec f) =>
      match r_data r with
      | RFields vals =>
        _ <-- wn (r_name r) ;;
        _ <-- eu16 (r_type r) ;;
        _ <-- eu16 (match ec with ECField => r_class r | ECIn => CLASS_IN end) ;;
        _ <-- eu32 (r_ttl r) ;;
        li <-- create_length_index ;;
        _ <-- write_fields_with (dec_value_names (r_type r)) vals f ;;
        set_length_index li
      | _ => fun _ => EIllTyped
      end
    | Some (WrSpecial SpOpt) =>
      match r_data r with
      | ROpt payload ext ver dnssec opts =>
        _ <-- wn [] ;;
        _ <-- eu16 (r_type r) ;;
        _ <-- eu16 payload ;;
        _ <-- eu32 (enc_opt_ttl ext ver dnssec) ;;
        li <-- create_length_index ;;
        _ <-- emap enc_edns_option opts ;;
        set_length_index li
      | _ => fun _ => EIllTyped
      end
    | Some (WrSpecial SpApl) =>
      match r_data r with
      | RApl items =>
        _ <-- wn (r_name r) ;;
        _ <-- eu16 (r_type r) ;;
        _ <-- eu16 CLASS_IN ;;
        _ <-- eu32 (r_ttl r) ;;
        li <-- create_length_index ;;
        _ <-- emap enc_apitem items ;;
        set_length_index li
      | _ => fun _ => EIllTyped
      end
    | Some (WrSpecial _) =>
      match r_data r with
      | RSvcb prio target params =>
        _ <-- wn (r_name r) ;;
        _ <-- eu16 (r_type r) ;;
        _ <-- eu16 CLASS_IN ;;
        _ <-- eu32 (r_ttl r) ;;
        li <-- create_length_index ;;
        _ <-- eu16 prio ;;
        _ <-- wn target ;;
        _ <-- (if negb (prio =? 0) then emap enc_service_parameter params else eret tt) ;;
        set_length_index li
      | _ => fun _ => EIllTyped
      end
    | None => fun _ => EIllTyped
    end.

  Definition enc_question_with (q : question) : EM unit :=
    _ <-- wn (q_name q) ;; _ <-- eu16 (q_type q) ;; eu16 (q_class q).

  Definition enc_dns_with (m : dns) : EM unit :=
    _ <-- eu16 (m_id m) ;;
    _ <-- enc_flags (m_flags m) ;;
    _ <-- enc_count (m_qd m) ;; _ <-- enc_count (m_an m) ;;
    _ <-- enc_count (m_ns m) ;; _ <-- enc_count (m_ar m) ;;
    _ <-- emap enc_question_with (m_qd m) ;;
    _ <-- emap enc_rr_with (m_an m) ;;
    _ <-- emap enc_rr_with (m_ns m) ;;
    _ <-- emap enc_rr_with (m_ar m) ;;
    _ <-- get_offset ;; eret tt.
End WithNameWriter.

(* instantiated with the model's name writer, the parametrised encoder IS the encoder *)
Lemma write_field_with_eq (k : fk) (v : option fv) (s : est) :
  write_field_with enc_domain_name k v s = write_field k v s.
Proof. reflexivity. Qed.

Lemma write_fields_with_eq (names : list string) (vals : list fv) (f : list (string * fk)) (s : est) :
  write_fields_with enc_domain_name names vals f s = write_fields names vals f s.
Proof. reflexivity. Qed.

Lemma ebind_ext {A B} (m1 m2 : EM A) (f1 f2 : A -> EM B) (s : est) :
  (forall s, m1 s = m2 s) -> (forall a s, f1 a s = f2 a s) -> ebind m1 f1 s = ebind m2 f2 s.
Proof. intros H1 H2. unfold ebind. rewrite H1. destruct (m2 s); try reflexivity. apply H2. Qed.

Lemma emap_ext {A} (f1 f2 : A -> EM unit) (l : list A) :
  (forall a s, f1 a s = f2 a s) -> forall s : est, emap f1 l s = emap f2 l s.
Proof.
  intros H. induction l as [|x l IH]; intros s; [reflexivity|].
  cbn [emap]. apply ebind_ext; [apply H|intros _; exact IH].
Qed.

Lemma enc_rr_with_eq (r : rr) (s : est) : enc_rr_with enc_domain_name r s = enc_rr r s.
Proof. reflexivity. Qed.

Lemma enc_question_with_eq (q : question) (s : est) : enc_question_with enc_domain_name q s = enc_question q s.
Proof. reflexivity. Qed.

Lemma enc_dns_with_eq (m : dns) (s : est) : enc_dns_with enc_domain_name m s = enc_dns m s.
Proof. reflexivity. Qed.

(* structural tactic: both sides have the same shape *)
Ltac rel2_step :=
  first
  [ assumption
  | match goal with H : forall n, rel2 (?w1 n) (?w2 n) |- rel2 (?w1 _) (?w2 _) => apply H end
  | apply rel2_ret | apply rel2_fail | apply rel2_panic | apply rel2_ill
  | apply respects_put | apply respects_eu8 | apply respects_eu16 | apply respects_eu32 | apply respects_eu64
  | apply respects_buf_len | apply respects_get_offset | apply respects_estring
  | apply respects_create_length_index | apply respects_set_length_index
  | apply respects_set_u16 | apply respects_set_u8
  | apply rel2_bind; [|intro]
  | apply rel2_emap; intro
  | match goal with |- rel2 (if ?x then _ else _) (if ?x then _ else _) => destruct x end
  | match goal with |- rel2 (match ?x with _ => _ end) (match ?x with _ => _ end) => destruct x end
  | progress cbv zeta ].
Ltac rel2_auto := repeat rel2_step.

Lemma respects_rr_address_with_length (a : addr) (minimum : N) : respects (rr_address_with_length a minimum).
Proof. unfold respects, rr_address_with_length. rel2_auto. Qed.

Lemma respects_enc_edns_option (o : ednsopt) : respects (enc_edns_option o).
Proof.
  pose proof respects_rr_address_with_length as HA.
  unfold respects, enc_edns_option, enc_ecs, enc_cookie, enc_padding. destruct o; rel2_auto; apply HA.
Qed.

Lemma respects_set_address_length_index (neg : bool) (ali : N) : respects (set_address_length_index neg ali).
Proof. unfold respects, set_address_length_index. rel2_auto. Qed.

Lemma respects_enc_apitem (i : apitem) : respects (enc_apitem i).
Proof.
  unfold respects, enc_apitem. rel2_auto;
    first [apply respects_rr_address_with_length|apply respects_set_address_length_index].
Qed.

Lemma respects_enc_service_parameter (p : svcparam) : respects (enc_service_parameter p).
Proof. unfold respects, enc_service_parameter. destruct p; rel2_auto. Qed.

Lemma respects_enc_flags (f : flags) : respects (enc_flags f).
Proof. unfold respects, enc_flags. rel2_auto. Qed.

Lemma respects_enc_count {A} (l : list A) : respects (enc_count l).
Proof. unfold respects, enc_count. rel2_auto. Qed.

Section TwoNameWriters.
  Variables wn1 wn2 : name -> EM unit.
  Hypothesis wn_rel : forall n, rel2 (wn1 n) (wn2 n).

  Lemma rel2_write_field (k : fk) (v : option fv) : rel2 (write_field_with wn1 k v) (write_field_with wn2 k v).
  Proof.
    unfold write_field_with.
    destruct k; try (destruct v as [[| | | |]|]); rel2_auto.
  Qed.

  Lemma rel2_write_fields (names : list string) (vals : list fv) (f : list (string * fk)) :
    rel2 (write_fields_with wn1 names vals f) (write_fields_with wn2 names vals f).
  Proof.
    induction f as [|[nm k] r IH]; cbn [write_fields_with]; [apply rel2_ret|].
    apply rel2_bind; [apply rel2_write_field|intros _; exact IH].
  Qed.

  Lemma rel2_enc_question (q : question) : rel2 (enc_question_with wn1 q) (enc_question_with wn2 q).
  Proof. unfold enc_question_with. rel2_auto. Qed.

  Lemma rel2_enc_rr (r : rr) : rel2 (enc_rr_with wn1 r) (enc_rr_with wn2 r).
  Proof.
    pose proof rel2_write_fields as HF.
    pose proof respects_enc_edns_option as HO.
    pose proof respects_enc_apitem as HI.
    pose proof respects_enc_service_parameter as HS.
    unfold enc_rr_with.
    destruct (lookup (r_type r) enc_dispatch) as [[ec f|[| | |]]|]; try apply rel2_ill;
      destruct (r_data r); try apply rel2_ill; rel2_auto;
      first [apply HF|apply HO|apply HI|apply HS
            |apply respects_rr_address_with_length|apply respects_set_address_length_index].
  Qed.

  Lemma rel2_enc_dns (m : dns) : rel2 (enc_dns_with wn1 m) (enc_dns_with wn2 m).
  Proof.
    pose proof rel2_enc_question as HQ. pose proof rel2_enc_rr as HR.
    pose proof respects_enc_flags as HFl.
    unfold enc_dns_with. rel2_auto;
      first [apply HQ|apply HR|apply HFl|apply respects_enc_count].
  Qed.
End TwoNameWriters.

(* every writer of the model respects state equivalence *)
Theorem respects_enc_question (q : question) : respects (enc_question q).
Proof.
  eapply rel2_ext; [intros s; symmetry; apply enc_question_with_eq|intros s; symmetry; apply enc_question_with_eq|].
  apply rel2_enc_question. exact respects_enc_domain_name.
Qed.
Theorem respects_enc_rr (r : rr) : respects (enc_rr r).
Proof.
  eapply rel2_ext; [intros s; symmetry; apply enc_rr_with_eq|intros s; symmetry; apply enc_rr_with_eq|].
  apply rel2_enc_rr. exact respects_enc_domain_name.
Qed.
Theorem respects_enc_dns (m : dns) : respects (enc_dns m).
Proof.
  eapply rel2_ext; [intros s; symmetry; apply enc_dns_with_eq|intros s; symmetry; apply enc_dns_with_eq|].
  apply rel2_enc_dns. exact respects_enc_domain_name.
Qed.

(* the encoder with an arbitrary iteration order of the local table *)
Definition enc_question_ord (perm : list (name * N) -> list (name * N)) := enc_question_with (enc_domain_name_ord perm).
Definition enc_rr_ord (perm : list (name * N) -> list (name * N)) := enc_rr_with (enc_domain_name_ord perm).
Definition enc_dns_ord (perm : list (name * N) -> list (name * N)) := enc_dns_with (enc_domain_name_ord perm).

Section Seed.
  Variable perm : list (name * N) -> list (name * N).
  Hypothesis perm_ok : forall l, Permutation l (perm l).

  Lemma question_seed (q : question) : rel2 (enc_question q) (enc_question_ord perm q).
  Proof.
    eapply rel2_ext; [intros s; symmetry; apply enc_question_with_eq|reflexivity|].
    apply rel2_enc_question. apply name_writer_order. exact perm_ok.
  Qed.
  Lemma rr_seed (r : rr) : rel2 (enc_rr r) (enc_rr_ord perm r).
  Proof.
    eapply rel2_ext; [intros s; symmetry; apply enc_rr_with_eq|reflexivity|].
    apply rel2_enc_rr. apply name_writer_order. exact perm_ok.
  Qed.
  Lemma dns_seed (m : dns) : rel2 (enc_dns m) (enc_dns_ord perm m).
  Proof.
    eapply rel2_ext; [intros s; symmetry; apply enc_dns_with_eq|reflexivity|].
    apply rel2_enc_dns. apply name_writer_order. exact perm_ok.
  Qed.
End Seed.

Theorem question_independent_of_seed : forall (perm : list (name * N) -> list (name * N)),
  (forall l, Permutation l (perm l)) ->
  forall (q : question) (s t : est), st_equiv s t -> res_equiv (enc_question q s) (enc_question_ord perm q t).
Proof. intros perm H q. exact (question_seed perm H q). Qed.

Theorem rr_independent_of_seed : forall (perm : list (name * N) -> list (name * N)),
  (forall l, Permutation l (perm l)) ->
  forall (r : rr) (s t : est), st_equiv s t -> res_equiv (enc_rr r s) (enc_rr_ord perm r t).
Proof. intros perm H r. exact (rr_seed perm H r). Qed.

Theorem dns_independent_of_seed : forall (perm : list (name * N) -> list (name * N)),
  (forall l, Permutation l (perm l)) ->
  forall (m : dns) (s t : est), st_equiv s t -> res_equiv (enc_dns m s) (enc_dns_ord perm m t).
Proof. intros perm H m. exact (dns_seed perm H m). Qed.

(* the public entry point: the same bytes / the same error, whatever the order *)
Theorem encode_independent_of_seed : forall (perm : list (name * N) -> list (name * N)),
  (forall l, Permutation l (perm l)) ->
  forall m : dns, enc_Dns m = erun (enc_dns_ord perm m).
Proof. intros perm H m. unfold enc_Dns. apply rel2_erun. apply dns_seed. exact H. Qed.

(* two instances with two seeds *)
Theorem encode_two_seeds : forall (perm1 perm2 : list (name * N) -> list (name * N)),
  (forall l, Permutation l (perm1 l)) -> (forall l, Permutation l (perm2 l)) ->
  forall m : dns, erun (enc_dns_ord perm1 m) = erun (enc_dns_ord perm2 m).
Proof.
  intros p1 p2 H1 H2 m. rewrite <- (encode_independent_of_seed p1 H1), <- (encode_independent_of_seed p2 H2).
  reflexivity.
Qed.

(* ------------------------------------------------------------------------------------------ *)
(* 5. the decoder's visited set                                                               *)
(* ------------------------------------------------------------------------------------------ *)
Lemma existsb_perm {A} (f : A -> bool) (l l' : list A) : Permutation l l' -> existsb f l = existsb f l'.
Proof.
  induction 1 as [|x l l' HP IH|x y l|l l' l'' HP1 IH1 HP2 IH2]; cbn [existsb].
  - reflexivity.
  - rewrite IH. reflexivity.
  - destruct (f x), (f y); reflexivity.
  - congruence.
Qed.

Lemma lenN_perm {A} (l l' : list A) : Permutation l l' -> lenN l = lenN l'.
Proof. intros H. unfold lenN. rewrite (Permutation_length H). reflexivity. Qed.

Lemma rec_loop_eq f main nm recs length :
  rec_loop (S f) main nm recs length =
    if length =? 0 then ret nm
    else if is_compressed length then
      buffer <- u8 ;;
      let offset := ptr_offset length buffer in
      if existsb (N.eqb offset) recs then fail (EEndlessRecursion, [offset])
      else
        let recs' := offset :: recs in
        let n := lenN recs' in
        if cmp_apply OP_dec_maxrec n DOMAIN_NAME_MAX_RECURSION then fail (EMaxRecursion, [n])
        else fun s =>
          (l <- u8 ;; rec_loop f main nm recs' l) (jump main offset (d_cost s))
    else
      '(nm', l) <- domain_name_label nm length ;; rec_loop f main nm' recs l.
Proof. reflexivity. Qed.

Theorem decoder_visited_set : forall (f : nat) (main : bytes) (nm : name) (recs recs' : list N) (l : N) (s : dst),
  Permutation recs recs' ->
  rec_loop f main nm recs l s = rec_loop f main nm recs' l s.
Proof.
  induction f as [|f IH]; intros main nm recs recs' l s HP; [reflexivity|].
  rewrite !rec_loop_eq.
  destruct (l =? 0); [reflexivity|].
  destruct (is_compressed l).
  - unfold bind. destruct (u8 s) as [buffer s1| | |]; try reflexivity. cbv zeta.
    rewrite (existsb_perm _ _ _ HP).
    destruct (existsb (N.eqb (ptr_offset l buffer)) recs'); [reflexivity|].
    assert (HP' : Permutation (ptr_offset l buffer :: recs) (ptr_offset l buffer :: recs')) by (apply perm_skip; exact HP).
    rewrite (lenN_perm _ _ HP').
    destruct (cmp_apply OP_dec_maxrec (lenN (ptr_offset l buffer :: recs')) DOMAIN_NAME_MAX_RECURSION); [reflexivity|].
    destruct (u8 (jump main (ptr_offset l buffer) (d_cost s1))) as [l2 s2| | |]; try reflexivity.
    apply IH. exact HP'.
  - unfold bind. destruct (domain_name_label nm l s) as [[nm' l2] s1| | |]; try reflexivity.
    apply IH. exact HP.
Qed.

(* C14_functions (remark, no theorem).  [enc_Dns : dns -> res bytes] and [dec_Dns : bytes -> res dns]
   are closed Gallina terms: their value is determined by the argument alone, an argument cannot be
   modified, and there is no notion of time, thread or shared mutable state in the language.  The
   corresponding facts about the Rust code (no global state, no interior mutability, &self / &[u8]
   inputs) are outside the model and are established by source inspection and by the harness. *)
