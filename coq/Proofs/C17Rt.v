(* C17, output side continued — decoding what the encoder emitted gives the value back (the octets the
   encoder cuts off are zero); the emitted octet count is the RFC 3123 count for every APL item (KF3
   repaired) and the RFC 7871 count for every ECS value outside one class (KF2, narrowed). *)
From Coq Require Import ZArith ZifyBool ZifyN ZifyNat.
From DNS Require Import Proofs.EncTotal Model.Values Model.Dec Model.Enc Proofs.DecBase Proofs.C12 Proofs.C17Dec
  Proofs.C17Enc Proofs.C17.
Local Open Scope N_scope.
Ltac Zify.zify_post_hook ::= Z.div_mod_to_equations.

(* ================================================================================================ *)
(* 3. Round trip                                                                                     *)
(* ================================================================================================ *)

Lemma zeros_of_forallb : forall l : bytes, forallb (N.eqb 0) l = true -> l = zeros (length l).
Proof.
  induction l as [|x l IH]; intros H; [reflexivity|].
  cbn [forallb] in H. apply andb_true_iff in H. destruct H as [H1 H2]. apply N.eqb_eq in H1. subst x.
  cbn [length zeros]. f_equal. apply IH. exact H2.
Qed.

(* the octets cut off lie behind the last non-zero octet: zero-filling gives them back (no appeal to the
   prefix is needed) *)
Lemma cut_refill (a : addr) (cnt : N) : addr_wf a -> addr_significant (a_oct a) <= cnt -> cnt <= addr_size a ->
  takeN cnt (a_oct a) ++ zeros (N.to_nat (addr_size a - cnt)) = a_oct a.
Proof.
  intros Hwf Hsig Hle.
  pose proof (addr_significant_dropped (a_oct a) cnt Hsig) as Hz.
  apply zeros_of_forallb in Hz.
  assert (Hl : length (dropN cnt (a_oct a)) = N.to_nat (addr_size a - cnt)).
  { unfold dropN. rewrite skipn_length. pose proof (addr_wf_len a Hwf) as H. unfold lenN in H. lia. }
  rewrite Hl in Hz. rewrite <- Hz. unfold takeN, dropN. apply firstn_skipn.
Qed.

Theorem emit_roundtrip_apitem : forall (i : apitem) (s : dst) (rest : bytes),
  apitem_inv i -> dst_wf s -> d_rest s = apitem_wire i ++ rest ->
  let cnt := addr_significant (a_oct (i_addr i)) in
  lenN (apitem_wire i) = 4 + cnt /\
  rr_apl_apitem s =
    DOk i {| d_rest := rest; d_off := d_off s + (4 + cnt); d_len := d_len s;
             d_cost := d_cost s + (4 + 2 * cnt) |}.
Proof.
  intros i s rest [Hwf Hok] W Hr cnt.
  pose proof (addr_wf_fam _ Hwf) as Hfam.
  pose proof (addr_size_cases (i_addr i)) as Hs.
  pose proof (addr_significant_le (a_oct (i_addr i))) as Hcle. rewrite (addr_wf_len _ Hwf) in Hcle.
  fold cnt in Hcle.
  set (a := takeN cnt (a_oct (i_addr i))).
  assert (Ha : lenN a = cnt).
  { unfold a. rewrite lenN_takeN_, (addr_wf_len _ Hwf). lia. }
  assert (Hp : i_prefix i mod 256 = i_prefix i).
  { apply N.mod_small. destruct Hok as [Hp _]. lia. }
  assert (Hwire : apitem_wire i = 0 :: a_fam (i_addr i) :: i_prefix i :: (negbit (i_neg i) + lenN a) :: a).
  { unfold apitem_wire. cbv zeta. fold cnt. fold a. rewrite (u16b_fam _ Hfam), Hp, Ha. reflexivity. }
  split.
  { rewrite Hwire, !lenN_cons, Ha. lia. }
  rewrite Hwire in Hr. cbn [app] in Hr.
  assert (Hk : lenN a < 128) by lia.
  destruct (accept_apitem s 0 (a_fam (i_addr i)) (i_prefix i) (i_neg i) a rest W Hk Hr) as (Hacc & _).
  cbv zeta in Hacc. change (0 * 256 + a_fam (i_addr i)) with (a_fam (i_addr i)) in Hacc.
  assert (Hfill : a ++ zeros (N.to_nat (fam_size (a_fam (i_addr i)) - lenN a)) = a_oct (i_addr i)).
  { rewrite Ha. apply (cut_refill (i_addr i) cnt Hwf); [unfold cnt; lia|exact Hcle]. }
  rewrite Hfill, Ha in Hacc.
  rewrite Hacc.
  - destruct i as [p n [f o]]. reflexivity.
  - split; [exact Hfam|]. split; [change (fam_size (a_fam (i_addr i))) with (addr_size (i_addr i)); lia|].
    unfold zfill. rewrite (fam_tag_id _ Hfam), Hfill.
    destruct (i_addr i) as [f o]. exact Hok.
Qed.

(* encoder output fed to the decoder *)
Theorem emit_roundtrip : forall (i : apitem) (st : est), apitem_inv i ->
  exists w : bytes,
    enc_apitem i st = EOk tt {| e_buf := e_buf st ++ w; e_idx := e_idx st; e_names := e_names st |} /\
    forall (s : dst) (rest : bytes), dst_wf s -> d_rest s = w ++ rest ->
      exists s', rr_apl_apitem s = DOk i s' /\ d_rest s' = rest /\ d_off s' = d_off s + lenN w /\
                 d_len s' = d_len s.
Proof.
  intros i st Hinv. exists (apitem_wire i). split; [apply enc_apitem_eq; apply Hinv|].
  intros s rest W Hr. destruct (emit_roundtrip_apitem i s rest Hinv W Hr) as [Hl Hd].
  eexists. split; [exact Hd|]. cbn [d_rest d_off d_len]. rewrite Hl. split; [reflexivity|].
  split; reflexivity.
Qed.

(* ECS: the option body (behind OPTION-CODE and OPTION-LENGTH) *)
Definition ecs_body (e : ecs) : bytes :=
  let cnt := N.max (addr_significant (a_oct (e_addr e))) ((e_src e + 7) / 8) in
  u16b (a_fam (e_addr e)) ++ [e_src e mod 256] ++ [e_scope e mod 256] ++ takeN cnt (a_oct (e_addr e)).

Lemma ecs_wire_body (e : ecs) :
  ecs_wire e = u16b 8 ++ u16b (4 + ecs_count e) ++ ecs_body e /\
  lenN (ecs_body e) = 4 + lenN (takeN (ecs_count e) (a_oct (e_addr e))).
Proof.
  split; [reflexivity|]. unfold ecs_body. cbv zeta. rewrite !lenN_app_. unfold u16b, lenN at 1 2 3.
  cbn [length]. unfold ecs_count, emit_count. lia.
Qed.

Theorem emit_roundtrip_ecs : forall (e : ecs) (s : dst),
  ecs_inv e -> dst_wf s -> d_rest s = ecs_body e ->
  let cnt := N.max (addr_significant (a_oct (e_addr e))) ((e_src e + 7) / 8) in
  lenN (ecs_body e) = 4 + cnt /\
  rr_edns_ecs s =
    DOk e {| d_rest := []; d_off := d_off s + (4 + cnt); d_len := d_len s; d_cost := d_cost s + (4 + cnt) |}.
Proof.
  intros e s Hinv W Hr cnt. pose proof Hinv as [Hwf Hok]. fold (ecs_prefix e) in Hok.
  pose proof (addr_wf_fam _ Hwf) as Hfam.
  pose proof (addr_size_cases (e_addr e)) as Hs.
  pose proof (ecs_count_le e Hwf (ecs_inv_src e Hinv)) as Hcle. change (ecs_count e) with cnt in Hcle.
  set (a := takeN cnt (a_oct (e_addr e))).
  assert (Ha : lenN a = cnt).
  { unfold a. rewrite lenN_takeN_, (addr_wf_len _ Hwf). lia. }
  assert (Hsrc : e_src e mod 256 = e_src e).
  { apply N.mod_small. destruct Hok as [Hp _]. unfold ecs_prefix in Hp. lia. }
  assert (Hscope : e_scope e mod 256 = e_scope e).
  { apply N.mod_small. destruct Hok as [Hp _]. unfold ecs_prefix in Hp. lia. }
  assert (Hwire : ecs_body e = 0 :: a_fam (e_addr e) :: e_src e :: e_scope e :: a).
  { unfold ecs_body. cbv zeta. fold cnt. fold a. rewrite (u16b_fam _ Hfam), Hsrc, Hscope. reflexivity. }
  split.
  { rewrite Hwire, !lenN_cons, Ha. lia. }
  rewrite Hwire in Hr.
  destruct (accept_ecs s 0 (a_fam (e_addr e)) (e_src e) (e_scope e) a W Hr) as (Hacc & _).
  cbv zeta in Hacc. change (0 * 256 + a_fam (e_addr e)) with (a_fam (e_addr e)) in Hacc.
  assert (Hfill : a ++ zeros (N.to_nat (fam_size (a_fam (e_addr e)) - lenN a)) = a_oct (e_addr e)).
  { rewrite Ha. apply (cut_refill (e_addr e) cnt Hwf); [unfold cnt; lia|exact Hcle]. }
  rewrite Hfill, Ha in Hacc.
  rewrite Hacc.
  - destruct e as [sr sc [f o]]. reflexivity.
  - split; [exact Hfam|]. split; [change (fam_size (a_fam (e_addr e))) with (addr_size (e_addr e)); lia|].
    unfold zfill. rewrite (fam_tag_id _ Hfam), Hfill.
    destruct (e_addr e) as [f o]. exact Hok.
Qed.

(* encoder output (option header included) and the decoder run on the option body *)
Theorem emit_roundtrip_ecs_wire : forall (e : ecs) (st : est), ecs_inv e ->
  let cnt := N.max (addr_significant (a_oct (e_addr e))) ((e_src e + 7) / 8) in
  enc_ecs e st = EOk tt {| e_buf := e_buf st ++ u16b 8 ++ u16b (4 + cnt) ++ ecs_body e;
                           e_idx := e_idx st; e_names := e_names st |} /\
  lenN (ecs_body e) = 4 + cnt /\
  forall s : dst, dst_wf s -> d_rest s = ecs_body e ->
    rr_edns_ecs s = DOk e {| d_rest := []; d_off := d_off s + (4 + cnt); d_len := d_len s;
                             d_cost := d_cost s + (4 + cnt) |}.
Proof.
  intros e st Hinv cnt.
  split; [rewrite (enc_ecs_eq e st (proj1 Hinv) (ecs_inv_src e Hinv)); reflexivity|].
  split.
  - destruct (ecs_wire_body e) as [_ H]. rewrite H. change (ecs_count e) with cnt.
    rewrite lenN_takeN_, (addr_wf_len _ (proj1 Hinv)).
    pose proof (ecs_count_le e (proj1 Hinv) (ecs_inv_src e Hinv)) as Hc. change (ecs_count e) with cnt in Hc. lia.
  - intros s W Hr. exact (proj2 (emit_roundtrip_ecs e s Hinv W Hr)).
Qed.

(* ================================================================================================ *)
(* 4. The RFC counts                                                                                 *)
(* ================================================================================================ *)

(* RFC 7871 section 6: ADDRESS "MUST be truncated to the number of bits indicated by the SOURCE
   PREFIX-LENGTH field, padding with 0 bits to pad to the end of the last octet needed" *)
Definition rfc7871_count (src : N) : N := (src + 7) / 8.

(* RFC 3123 section 4: "trailing zero octets [...] MUST NOT be included": the index of the last
   non-zero octet plus one, 0 for the all-zero address *)
Fixpoint rfc3123_count (l : bytes) : N :=
  match l with
  | [] => 0
  | b :: r => if (rfc3123_count r =? 0) && (b =? 0) then 0 else rfc3123_count r + 1
  end.

(* the encoder's "significant octets" (a search from the back) are exactly that count *)
Lemma significant_rfc3123 : forall l : bytes, addr_significant l = rfc3123_count l.
Proof.
  induction l as [|b r IH]; [apply addr_significant_nil|].
  rewrite addr_significant_cons, IH. reflexivity.
Qed.

(* the number of address octets, read off the encoder's output *)
Definition apl_emitted (i : apitem) : option N :=
  match enc_apitem i e_init with EOk _ st => Some (lenN (e_buf st) - 4) | _ => None end.
Definition ecs_emitted (e : ecs) : option N :=
  match enc_ecs e e_init with EOk _ st => Some (lenN (e_buf st) - 8) | _ => None end.

Lemma apl_emitted_eq (i : apitem) : apitem_inv i -> apl_emitted i = Some (addr_significant (a_oct (i_addr i))).
Proof.
  intros Hinv. unfold apl_emitted. rewrite (enc_apitem_eq i e_init (proj1 Hinv)). cbn [e_buf e_init app].
  f_equal. unfold apitem_wire. cbv zeta. rewrite !lenN_app_.
  pose proof (addr_significant_le (a_oct (i_addr i))) as Hle.
  rewrite lenN_takeN_. unfold u16b, lenN at 1 2 3. cbn [length]. lia.
Qed.

(* APL: the RFC 3123 count, for EVERY valid item (KF3 is repaired) *)
Theorem emit_rfc_apl : forall i : apitem, apitem_inv i ->
  apl_emitted i = Some (rfc3123_count (a_oct (i_addr i))).
Proof. intros i Hinv. rewrite (apl_emitted_eq i Hinv), significant_rfc3123. reflexivity. Qed.

(* ... in words: the last emitted address octet, if any, is not zero *)
Theorem emit_apl_no_trailing_zero : forall i : apitem, apitem_inv i ->
  let w := takeN (addr_significant (a_oct (i_addr i))) (a_oct (i_addr i)) in
  w = [] \/ exists x, nthN (lenN w - 1) w = Some x /\ x <> 0.
Proof.
  intros i _ w. destruct (addr_significant_spec (a_oct (i_addr i))) as (H1 & _ & [H3|(x & Hx1 & Hx2)]).
  - left. unfold w. rewrite H3. reflexivity.
  - right. exists x. split; [|exact Hx2].
    assert (Hw : lenN w = addr_significant (a_oct (i_addr i))) by (unfold w; rewrite lenN_takeN_; lia).
    rewrite Hw. unfold nthN in *. unfold w, takeN.
    destruct (N.eq_dec (addr_significant (a_oct (i_addr i))) 0) as [E0|E0].
    + exfalso. rewrite E0 in Hx1. rewrite E0 in H1.
      destruct (addr_significant_spec (a_oct (i_addr i))) as (_ & Hz & _). rewrite E0 in Hz.
      change (dropN 0 (a_oct (i_addr i))) with (a_oct (i_addr i)) in Hz.
      destruct (a_oct (i_addr i)) as [|y r]; [discriminate Hx1|].
      cbn [forallb] in Hz. apply andb_true_iff in Hz. destruct Hz as [Hy _]. apply N.eqb_eq in Hy.
      change (nth_opt (N.to_nat (0 - 1)) (y :: r)) with (Some y) in Hx1. injection Hx1 as <-. apply Hx2. symmetry. exact Hy.
    + rewrite ListN.nth_opt_firstn by lia. exact Hx1.
Qed.

(* ECS: what remains of known finding KF2 — a non-zero address octet beyond the ceil(source / 8)
   octets that RFC 7871 mandates; such a value is written up to that octet so that no set bit is lost *)
Definition ecs_known_class (e : ecs) : Prop := (e_src e + 7) / 8 < addr_significant (a_oct (e_addr e)).

Lemma ecs_emitted_eq (e : ecs) : ecs_inv e ->
  ecs_emitted e = Some (N.max (addr_significant (a_oct (e_addr e))) ((e_src e + 7) / 8)).
Proof.
  intros Hinv. unfold ecs_emitted.
  rewrite (enc_ecs_eq e e_init (proj1 Hinv) (ecs_inv_src e Hinv)). cbn [e_buf e_init app].
  pose proof (ecs_count_le e (proj1 Hinv) (ecs_inv_src e Hinv)) as Hc.
  rewrite <- (addr_wf_len _ (proj1 Hinv)) in Hc.
  f_equal. unfold ecs_wire. cbv zeta. rewrite !lenN_app_, lenN_takeN_.
  unfold u16b, lenN at 1 2 3 4 5. cbn [length]. unfold ecs_count, emit_count in *. lia.
Qed.

(* outside that class: exactly the RFC 7871 count *)
Theorem emit_rfc_ecs : forall e : ecs, ecs_inv e -> ~ ecs_known_class e ->
  ecs_emitted e = Some (rfc7871_count (e_src e)).
Proof.
  intros e Hinv Hn. rewrite (ecs_emitted_eq e Hinv). unfold ecs_known_class in Hn. unfold rfc7871_count.
  f_equal. lia.
Qed.

(* the class needs a scope prefix longer than the source prefix *)
Theorem known_class_needs_scope : forall e : ecs, ecs_inv e -> ecs_known_class e -> e_src e < e_scope e.
Proof.
  intros e [Hwf Hok] Hc. unfold ecs_known_class in Hc.
  destruct (N.lt_ge_cases (e_src e) (e_scope e)) as [Hlt|Hge]; [exact Hlt|exfalso].
  replace (N.max (e_src e) (e_scope e)) with (e_src e) in Hok by lia.
  pose proof (significant_within_prefix (e_addr e) (e_src e) Hwf Hok) as H. lia.
Qed.

Theorem emit_rfc_ecs_scope_le : forall e : ecs, ecs_inv e -> e_scope e <= e_src e ->
  ecs_emitted e = Some (rfc7871_count (e_src e)).
Proof.
  intros e Hinv Hle. apply (emit_rfc_ecs e Hinv). intros Hc.
  pose proof (known_class_needs_scope e Hinv Hc) as H. lia.
Qed.

(* -- the witness of the remaining class: 10.1.0.0, source 8, scope 24 -- *)
Definition w_ecs_scope : ecs :=
  {| e_src := 8; e_scope := 24; e_addr := {| a_fam := 1; a_oct := [10; 1; 0; 0] |} |}.

Lemma w_ecs_scope_inv : ecs_inv w_ecs_scope.
Proof.
  assert (W : addr_wf (e_addr w_ecs_scope)).
  { split; [left; split; reflexivity|]. repeat constructor. }
  split; [exact W|]. apply check_prefix_ok; [exact W|vm_compute; reflexivity].
Qed.

Theorem emit_rfc_ecs_known_refuted :
  ecs_inv w_ecs_scope /\ ecs_known_class w_ecs_scope /\
  ecs_emitted w_ecs_scope = Some 2 /\ rfc7871_count 8 = 1 /\
  ~ (forall e, ecs_inv e -> ecs_emitted e = Some (rfc7871_count (e_src e))).
Proof.
  split; [exact w_ecs_scope_inv|].
  split; [unfold ecs_known_class; vm_compute; reflexivity|].
  split; [vm_compute; reflexivity|]. split; [reflexivity|].
  intros H. specialize (H w_ecs_scope w_ecs_scope_inv). vm_compute in H. discriminate H.
Qed.
