(* C17, output side continued — decoding what the encoder emitted gives the value back (the octets the
   encoder cuts off are zero), and the emitted octet count is NOT the RFC count (KF2, KF3). *)
From Coq Require Import ZArith ZifyBool ZifyN ZifyNat.
From DNS Require Import Model.Values Model.Dec Model.Enc Proofs.DecBase Proofs.C12 Proofs.C17Dec Proofs.C17Enc
  Proofs.C17.
Local Open Scope N_scope.
Ltac Zify.zify_post_hook ::= Z.div_mod_to_equations.

(* ================================================================================================ *)
(* 3. Round trip                                                                                     *)
(* ================================================================================================ *)

(* every octet from index prefix/8 + 1 on is zero: all its bits lie beyond the prefix *)
Lemma tail_zero (a : addr) (p : N) : addr_wf a -> prefix_ok a p ->
  forall k, emit_count p (addr_size a) <= k < lenN (a_oct a) -> nth (N.to_nat k) (a_oct a) 0 = 0.
Proof.
  intros Hwf [Hp Hbits] k [Hk1 Hk2]. rewrite (addr_wf_len a Hwf) in Hk2.
  destruct Hwf as [_ Hoct].
  apply octet_zero_spec; [apply Forall_nth_lt; exact Hoct|].
  intros j Hj. specialize (Hbits (8 * k + j)). unfold addr_bit in Hbits.
  destruct (divmod8_unique k j Hj) as [Hq Hr]. rewrite Hq, Hr in Hbits. apply Hbits.
  unfold emit_count in Hk1. lia.
Qed.

Lemma zeros_of_forallb : forall l : bytes, forallb (N.eqb 0) l = true -> l = zeros (length l).
Proof.
  induction l as [|x l IH]; intros H; [reflexivity|].
  cbn [forallb] in H. apply andb_true_iff in H. destruct H as [H1 H2]. apply N.eqb_eq in H1. subst x.
  cbn [length zeros]. f_equal. apply IH. exact H2.
Qed.

Lemma cut_refill (a : addr) (p : N) : addr_wf a -> prefix_ok a p ->
  takeN (emit_count p (addr_size a)) (a_oct a)
    ++ zeros (N.to_nat (addr_size a - emit_count p (addr_size a))) = a_oct a.
Proof.
  intros Hwf Hok. set (cnt := emit_count p (addr_size a)).
  assert (Hz : forallb (N.eqb 0) (dropN cnt (a_oct a)) = true).
  { apply rest_zero_spec. apply tail_zero; assumption. }
  apply zeros_of_forallb in Hz.
  assert (Hl : length (dropN cnt (a_oct a)) = N.to_nat (addr_size a - cnt)).
  { unfold dropN. rewrite skipn_length. pose proof (addr_wf_len a Hwf) as H. unfold lenN in H. lia. }
  rewrite Hl in Hz. rewrite <- Hz. unfold takeN, dropN. apply firstn_skipn.
Qed.

Theorem emit_roundtrip_apitem : forall (i : apitem) (s : dst) (rest : bytes),
  apitem_inv i -> dst_wf s -> d_rest s = apitem_wire i ++ rest ->
  let cnt := emit_count (i_prefix i) (addr_size (i_addr i)) in
  lenN (apitem_wire i) = 4 + cnt /\
  rr_apl_apitem s =
    DOk i {| d_rest := rest; d_off := d_off s + (4 + cnt); d_len := d_len s;
             d_cost := d_cost s + (4 + 2 * cnt) |}.
Proof.
  intros i s rest [Hwf Hok] W Hr cnt.
  pose proof (addr_wf_fam _ Hwf) as Hfam.
  pose proof (addr_size_cases (i_addr i)) as Hs.
  pose proof (emit_count_le (i_prefix i) (addr_size (i_addr i))) as Hcle. fold cnt in Hcle.
  set (a := takeN cnt (a_oct (i_addr i))).
  assert (Ha : lenN a = cnt).
  { unfold a. rewrite lenN_takeN_, (addr_wf_len _ Hwf). lia. }
  assert (Hp : i_prefix i mod 256 = i_prefix i).
  { apply N.mod_small. destruct Hok as [Hp _]. lia. }
  assert (Hwire : apitem_wire i = 0 :: a_fam (i_addr i) :: i_prefix i :: (negbit (i_neg i) + lenN a) :: a).
  { unfold apitem_wire. cbv zeta. fold cnt. fold a. rewrite (u16b_fam _ Hfam), Hp, Ha. reflexivity. }
  split.
  { rewrite Hwire, !lenN_cons, Ha. lia. }
  rewrite Hwire in Hr. cbn [app] in Hr.
  assert (Hk : lenN a < 128) by lia.
  destruct (accept_apitem s 0 (a_fam (i_addr i)) (i_prefix i) (i_neg i) a rest W Hk Hr) as (Hacc & _).
  cbv zeta in Hacc. change (0 * 256 + a_fam (i_addr i)) with (a_fam (i_addr i)) in Hacc.
  assert (Hfill : a ++ zeros (N.to_nat (fam_size (a_fam (i_addr i)) - lenN a)) = a_oct (i_addr i)).
  { rewrite Ha. exact (cut_refill (i_addr i) (i_prefix i) Hwf Hok). }
  rewrite Hfill, Ha in Hacc.
  rewrite Hacc.
  - destruct i as [p n [f o]]. reflexivity.
  - split; [exact Hfam|]. split; [change (fam_size (a_fam (i_addr i))) with (addr_size (i_addr i)); lia|].
    unfold zfill. rewrite (fam_tag_id _ Hfam), Hfill.
    destruct (i_addr i) as [f o]. exact Hok.
Qed.

(* encoder output fed to the decoder *)
Theorem emit_roundtrip : forall (i : apitem) (st : est), apitem_inv i ->
  exists w : bytes,
    enc_apitem i st = EOk tt {| e_buf := e_buf st ++ w; e_idx := e_idx st; e_names := e_names st |} /\
    forall (s : dst) (rest : bytes), dst_wf s -> d_rest s = w ++ rest ->
      exists s', rr_apl_apitem s = DOk i s' /\ d_rest s' = rest /\ d_off s' = d_off s + lenN w /\
                 d_len s' = d_len s.
Proof.
  intros i st Hinv. exists (apitem_wire i). split; [apply enc_apitem_eq; apply Hinv|].
  intros s rest W Hr. destruct (emit_roundtrip_apitem i s rest Hinv W Hr) as [Hl Hd].
  eexists. split; [exact Hd|]. cbn [d_rest d_off d_len]. rewrite Hl. split; [reflexivity|].
  split; reflexivity.
Qed.

(* ECS: the option body (behind OPTION-CODE and OPTION-LENGTH) *)
Definition ecs_body (e : ecs) : bytes :=
  let cnt := emit_count (ecs_prefix e) (addr_size (e_addr e)) in
  u16b (a_fam (e_addr e)) ++ [e_src e mod 256] ++ [e_scope e mod 256] ++ takeN cnt (a_oct (e_addr e)).

Lemma ecs_wire_body (e : ecs) :
  ecs_wire e = u16b 8 ++ u16b (4 + emit_count (ecs_prefix e) (addr_size (e_addr e))) ++ ecs_body e /\
  lenN (ecs_body e) = 4 + lenN (takeN (emit_count (ecs_prefix e) (addr_size (e_addr e))) (a_oct (e_addr e))).
Proof.
  split; [reflexivity|]. unfold ecs_body. cbv zeta. rewrite !lenN_app_. unfold u16b, lenN at 1 2 3.
  cbn [length]. lia.
Qed.

Theorem emit_roundtrip_ecs : forall (e : ecs) (s : dst),
  ecs_inv e -> dst_wf s -> d_rest s = ecs_body e ->
  let cnt := emit_count (ecs_prefix e) (addr_size (e_addr e)) in
  lenN (ecs_body e) = 4 + cnt /\
  rr_edns_ecs s =
    DOk e {| d_rest := []; d_off := d_off s + (4 + cnt); d_len := d_len s; d_cost := d_cost s + (4 + cnt) |}.
Proof.
  intros e s [Hwf Hok] W Hr cnt. fold (ecs_prefix e) in Hok.
  pose proof (addr_wf_fam _ Hwf) as Hfam.
  pose proof (addr_size_cases (e_addr e)) as Hs.
  pose proof (emit_count_le (ecs_prefix e) (addr_size (e_addr e))) as Hcle. fold cnt in Hcle.
  set (a := takeN cnt (a_oct (e_addr e))).
  assert (Ha : lenN a = cnt).
  { unfold a. rewrite lenN_takeN_, (addr_wf_len _ Hwf). lia. }
  assert (Hsrc : e_src e mod 256 = e_src e).
  { apply N.mod_small. destruct Hok as [Hp _]. unfold ecs_prefix in Hp. lia. }
  assert (Hscope : e_scope e mod 256 = e_scope e).
  { apply N.mod_small. destruct Hok as [Hp _]. unfold ecs_prefix in Hp. lia. }
  assert (Hwire : ecs_body e = 0 :: a_fam (e_addr e) :: e_src e :: e_scope e :: a).
  { unfold ecs_body. cbv zeta. fold cnt. fold a. rewrite (u16b_fam _ Hfam), Hsrc, Hscope. reflexivity. }
  split.
  { rewrite Hwire, !lenN_cons, Ha. lia. }
  rewrite Hwire in Hr.
  destruct (accept_ecs s 0 (a_fam (e_addr e)) (e_src e) (e_scope e) a W Hr) as (Hacc & _).
  cbv zeta in Hacc. change (0 * 256 + a_fam (e_addr e)) with (a_fam (e_addr e)) in Hacc.
  assert (Hfill : a ++ zeros (N.to_nat (fam_size (a_fam (e_addr e)) - lenN a)) = a_oct (e_addr e)).
  { rewrite Ha. exact (cut_refill (e_addr e) (ecs_prefix e) Hwf Hok). }
  rewrite Hfill, Ha in Hacc.
  rewrite Hacc.
  - destruct e as [sr sc [f o]]. reflexivity.
  - split; [exact Hfam|]. split; [change (fam_size (a_fam (e_addr e))) with (addr_size (e_addr e)); lia|].
    unfold zfill. rewrite (fam_tag_id _ Hfam), Hfill.
    destruct (e_addr e) as [f o]. exact Hok.
Qed.

(* ================================================================================================ *)
(* 4. The RFC counts, and their refutation                                                           *)
(* ================================================================================================ *)

(* RFC 7871 section 6: ADDRESS "MUST be truncated to the number of bits indicated by the SOURCE
   PREFIX-LENGTH field, padding with 0 bits to pad to the end of the last octet needed" *)
Definition rfc7871_count (src : N) : N := (src + 7) / 8.

(* RFC 3123 section 4: "trailing zero octets [...] MUST NOT be included": the index of the last
   non-zero octet plus one, 0 for the all-zero address *)
Fixpoint rfc3123_count (l : bytes) : N :=
  match l with
  | [] => 0
  | b :: r => if (rfc3123_count r =? 0) && (b =? 0) then 0 else rfc3123_count r + 1
  end.

Lemma nthN_succ_cons {A} (n : N) (x : A) (l : list A) : nthN (n + 1) (x :: l) = nthN n l.
Proof. unfold nthN. replace (N.to_nat (n + 1)) with (S (N.to_nat n)) by lia. reflexivity. Qed.
Lemma dropN_succ_cons {A} (n : N) (x : A) (l : list A) : dropN (n + 1) (x :: l) = dropN n l.
Proof. unfold dropN. replace (N.to_nat (n + 1)) with (S (N.to_nat n)) by lia. reflexivity. Qed.

(* the definition is the intended one *)
Lemma rfc3123_count_spec : forall l : bytes,
  rfc3123_count l <= lenN l /\
  forallb (N.eqb 0) (dropN (rfc3123_count l) l) = true /\
  (rfc3123_count l = 0 \/ exists x, nthN (rfc3123_count l - 1) l = Some x /\ x <> 0).
Proof.
  induction l as [|b r (IH1 & IH2 & IH3)]; [split; [reflexivity|split; [reflexivity|left; reflexivity]]|].
  cbn [rfc3123_count]. rewrite lenN_cons.
  destruct (rfc3123_count r =? 0) eqn:Ec; [apply N.eqb_eq in Ec|apply N.eqb_neq in Ec];
  destruct (b =? 0) eqn:Eb; [apply N.eqb_eq in Eb|apply N.eqb_neq in Eb| |]; cbn [andb].
  - split; [lia|]. split; [|left; reflexivity].
    rewrite Ec in IH2. change (dropN 0 r) with r in IH2. change (dropN 0 (b :: r)) with (b :: r).
    cbn [forallb]. rewrite IH2, Eb. reflexivity.
  - split; [lia|]. rewrite dropN_succ_cons. split; [exact IH2|]. right. exists b.
    rewrite Ec. split; [reflexivity|exact Eb].
  - split; [lia|]. rewrite dropN_succ_cons. split; [exact IH2|]. right.
    destruct IH3 as [IH3|(x & Hx1 & Hx2)]; [contradiction|]. exists x. split; [|exact Hx2].
    replace (rfc3123_count r + 1 - 1) with (rfc3123_count r - 1 + 1) by lia.
    rewrite nthN_succ_cons. exact Hx1.
  - split; [lia|]. rewrite dropN_succ_cons. split; [exact IH2|]. right.
    destruct IH3 as [IH3|(x & Hx1 & Hx2)]; [contradiction|]. exists x. split; [|exact Hx2].
    replace (rfc3123_count r + 1 - 1) with (rfc3123_count r - 1 + 1) by lia.
    rewrite nthN_succ_cons. exact Hx1.
Qed.

(* ECS, general: with scope <= source <= 8*size the emitted count is the RFC count or one more, and
   equals it exactly when the source prefix is not a multiple of 8 or is the full address *)
Theorem ecs_count_vs_rfc : forall src scope size : N, scope <= src -> src <= 8 * size ->
  (rfc7871_count src <= emit_count (N.max src scope) size <= rfc7871_count src + 1) /\
  (emit_count (N.max src scope) size = rfc7871_count src <-> src mod 8 <> 0 \/ src = 8 * size).
Proof. intros src scope size H1 H2. unfold emit_count, rfc7871_count. split; [lia|]. lia. Qed.

(* ... and a scope prefix larger than the source prefix makes the address longer still *)
Theorem ecs_count_follows_scope : forall src scope size : N, src <= scope -> scope <= 8 * size ->
  emit_count (N.max src scope) size = emit_count scope size /\
  rfc7871_count src <= emit_count scope size.
Proof. intros src scope size H1 H2. unfold emit_count, rfc7871_count. split; lia. Qed.

(* APL, general: the encoder never cuts off a non-zero octet, i.e. it emits at least the RFC count *)
Theorem apl_count_ge_rfc : forall i : apitem, apitem_inv i ->
  rfc3123_count (a_oct (i_addr i)) <= emit_count (i_prefix i) (addr_size (i_addr i)).
Proof.
  intros i [Hwf Hok].
  destruct (rfc3123_count_spec (a_oct (i_addr i))) as (H1 & _ & [H3|(x & Hx1 & Hx2)]); [lia|].
  destruct (N.le_gt_cases (rfc3123_count (a_oct (i_addr i))) (emit_count (i_prefix i) (addr_size (i_addr i))))
    as [Hle|Hgt]; [exact Hle|exfalso].
  pose proof (emit_count_pos (i_prefix i) (addr_size (i_addr i))) as Hpos.
  assert (Hz : nth (N.to_nat (rfc3123_count (a_oct (i_addr i)) - 1)) (a_oct (i_addr i)) 0 = 0).
  { apply (tail_zero (i_addr i) (i_prefix i) Hwf Hok). lia. }
  unfold nthN in Hx1. rewrite nth_opt_nth in Hx1 by (unfold lenN in H1; lia).
  injection Hx1 as Hx1. rewrite Hz in Hx1. apply Hx2. symmetry. exact Hx1.
Qed.

(* -- witnesses: the encoder run on concrete values -- *)
Definition apl_emitted (i : apitem) : option N :=
  match enc_apitem i e_init with EOk _ st => Some (lenN (e_buf st) - 4) | _ => None end.
Definition ecs_emitted (e : ecs) : option N :=
  match enc_ecs e e_init with EOk _ st => Some (lenN (e_buf st) - 8) | _ => None end.

Definition v4 (o : bytes) : addr := {| a_fam := 1; a_oct := o |}.
Definition w_apl24 : apitem := {| i_prefix := 24; i_neg := false; i_addr := v4 [10; 0; 0; 0] |}.
Definition w_apl0 : apitem := {| i_prefix := 0; i_neg := false; i_addr := v4 [0; 0; 0; 0] |}.
Definition w_ecs24 : ecs := {| e_src := 24; e_scope := 0; e_addr := v4 [10; 0; 0; 0] |}.
Definition w_ecs0 : ecs := {| e_src := 0; e_scope := 0; e_addr := v4 [0; 0; 0; 0] |}.
Definition w_ecs_scope : ecs := {| e_src := 8; e_scope := 24; e_addr := v4 [10; 0; 0; 0] |}.

Lemma v4_wf o : lenN o = 4 -> Forall (fun x => x < 256) o -> addr_wf (v4 o).
Proof. intros H1 H2. split; [left; split; [reflexivity|exact H1]|exact H2]. Qed.
Lemma v4_10_wf : addr_wf (v4 [10; 0; 0; 0]).
Proof. apply v4_wf; [reflexivity|]. repeat constructor. Qed.
Lemma v4_0_wf : addr_wf (v4 [0; 0; 0; 0]).
Proof. apply v4_wf; [reflexivity|]. repeat constructor. Qed.

Lemma w_apl24_inv : apitem_inv w_apl24.
Proof. split; [exact v4_10_wf|]. apply check_prefix_ok; [exact v4_10_wf|vm_compute; reflexivity]. Qed.
Lemma w_apl0_inv : apitem_inv w_apl0.
Proof. split; [exact v4_0_wf|]. apply check_prefix_ok; [exact v4_0_wf|vm_compute; reflexivity]. Qed.
Lemma w_ecs24_inv : ecs_inv w_ecs24.
Proof. split; [exact v4_10_wf|]. apply check_prefix_ok; [exact v4_10_wf|vm_compute; reflexivity]. Qed.
Lemma w_ecs0_inv : ecs_inv w_ecs0.
Proof. split; [exact v4_0_wf|]. apply check_prefix_ok; [exact v4_0_wf|vm_compute; reflexivity]. Qed.
Lemma w_ecs_scope_inv : ecs_inv w_ecs_scope.
Proof. split; [exact v4_10_wf|]. apply check_prefix_ok; [exact v4_10_wf|vm_compute; reflexivity]. Qed.

Theorem emit_rfc_refuted :
  (* KF3: APL 10.0.0.0/24 — four address octets emitted, RFC 3123 mandates one *)
  (apitem_inv w_apl24 /\
   enc_apitem w_apl24 e_init = EOk tt {| e_buf := [0; 1; 24; 4; 10; 0; 0; 0]; e_idx := []; e_names := [] |} /\
   apl_emitted w_apl24 = Some 4 /\ rfc3123_count (a_oct (i_addr w_apl24)) = 1) /\
  (* KF3: APL 0.0.0.0/0 — one (zero) octet emitted, RFC 3123 mandates none *)
  (apitem_inv w_apl0 /\
   enc_apitem w_apl0 e_init = EOk tt {| e_buf := [0; 1; 0; 1; 0]; e_idx := []; e_names := [] |} /\
   apl_emitted w_apl0 = Some 1 /\ rfc3123_count (a_oct (i_addr w_apl0)) = 0) /\
  (* KF2: ECS 10.0.0.0 source 24 scope 0 — four octets emitted, RFC 7871 mandates three *)
  (ecs_inv w_ecs24 /\
   enc_ecs w_ecs24 e_init =
     EOk tt {| e_buf := [0; 8; 0; 8; 0; 1; 24; 0; 10; 0; 0; 0]; e_idx := []; e_names := [] |} /\
   ecs_emitted w_ecs24 = Some 4 /\ rfc7871_count (e_src w_ecs24) = 3) /\
  (* KF2: ECS source 0 — one octet emitted, RFC 7871 mandates none *)
  (ecs_inv w_ecs0 /\
   enc_ecs w_ecs0 e_init = EOk tt {| e_buf := [0; 8; 0; 5; 0; 1; 0; 0; 0]; e_idx := []; e_names := [] |} /\
   ecs_emitted w_ecs0 = Some 1 /\ rfc7871_count (e_src w_ecs0) = 0) /\
  (* KF2: the count follows max(source, scope): source 8, scope 24 — four octets, RFC mandates one *)
  (ecs_inv w_ecs_scope /\ ecs_emitted w_ecs_scope = Some 4 /\ rfc7871_count (e_src w_ecs_scope) = 1) /\
  (* hence neither RFC rule holds of the encoder *)
  ~ (forall i, apitem_inv i -> apl_emitted i = Some (rfc3123_count (a_oct (i_addr i)))) /\
  ~ (forall e, ecs_inv e -> ecs_emitted e = Some (rfc7871_count (e_src e))).
Proof.
  split; [split; [exact w_apl24_inv|vm_compute; split; [|split]; reflexivity]|].
  split; [split; [exact w_apl0_inv|vm_compute; split; [|split]; reflexivity]|].
  split; [split; [exact w_ecs24_inv|vm_compute; split; [|split]; reflexivity]|].
  split; [split; [exact w_ecs0_inv|vm_compute; split; [|split]; reflexivity]|].
  split; [split; [exact w_ecs_scope_inv|vm_compute; split; reflexivity]|].
  split.
  - intros H. specialize (H w_apl24 w_apl24_inv). vm_compute in H. discriminate H.
  - intros H. specialize (H w_ecs24 w_ecs24_inv). vm_compute in H. discriminate H.
Qed.

(* encoder output (option header included) and the decoder run on the option body *)
Theorem emit_roundtrip_ecs_wire : forall (e : ecs) (st : est), ecs_inv e ->
  let cnt := emit_count (ecs_prefix e) (addr_size (e_addr e)) in
  enc_ecs e st = EOk tt {| e_buf := e_buf st ++ u16b 8 ++ u16b (4 + cnt) ++ ecs_body e;
                           e_idx := e_idx st; e_names := e_names st |} /\
  lenN (ecs_body e) = 4 + cnt /\
  forall s : dst, dst_wf s -> d_rest s = ecs_body e ->
    rr_edns_ecs s = DOk e {| d_rest := []; d_off := d_off s + (4 + cnt); d_len := d_len s;
                             d_cost := d_cost s + (4 + cnt) |}.
Proof.
  intros e st Hinv cnt.
  split; [rewrite (enc_ecs_eq e st (proj1 Hinv)); reflexivity|].
  split.
  - destruct (ecs_wire_body e) as [_ H]. rewrite H. fold cnt. rewrite lenN_takeN_, (addr_wf_len _ (proj1 Hinv)).
    pose proof (emit_count_le (ecs_prefix e) (addr_size (e_addr e))) as Hc. fold cnt in Hc. lia.
  - intros s W Hr. exact (proj2 (emit_roundtrip_ecs e s Hinv W Hr)).
Qed.
