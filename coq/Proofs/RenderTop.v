(* C04 (renderings) — every record type, and the theorems: every legal rendering of a well-formed message
   is accepted by the reference decoder (and hence by the decoder model) with an equivalent value. *)
From Coq Require Import ZArith ZifyBool ZifyN ZifyNat.
From DNS Require Import Model.Dec Model.Enc Spec.Names Spec.Iana Spec.Wire Spec.Render
  Proofs.ListN Proofs.DecBase Proofs.Enum Proofs.CorrTop
  Proofs.RtBase Proofs.RtPrim Proofs.RtFields Proofs.RtRecord Proofs.RtSpecial Proofs.RtApl Proofs.RtMsg Proofs.C05
  Proofs.RenderBase Proofs.RenderName Proofs.RenderFields Proofs.RenderRecord Proofs.RenderSpecial
  Proofs.RenderSvcb Proofs.RenderMsg.
Local Open Scope N_scope.
Ltac Zify.zify_post_hook ::= Z.div_mod_to_equations.

Lemma record_opt_acc (pre : bytes) (r : rr) (w : bytes) :
  opt_rr_wf r = true -> renders_rr pre r w -> lenN w <= 65535 ->
  bytes_ok w /\ exists r', acc false record pre w r' /\ rr_eqv r' r.
Proof.
  intros Hwf Hr Hlen. pose proof (rdata_opt_ok r Hwf) as Hd.
  unfold opt_rr_wf in Hwf. apply andb_true_iff in Hwf. destruct Hwf as [Hwf Hdat]. wf_split Hwf.
  destruct (r_data r) as [|payload ext ver dnssec opts| |] eqn:Ed; try discriminate.
  apply andb_true_iff in Hdat. destruct Hdat as [Hdat _]. wf_split Hdat.
  apply (record_acc_gen pre r w Hd); [| | | |exact Hr|exact Hlen].
  - destruct (r_name r); [reflexivity|discriminate].
  - assert (r_type r = 41) as -> by lia. exact type_41.
  - unfold wire_class. rewrite Ed. lia.
  - unfold wire_ttl. rewrite Ed. exact (proj1 (opt_ttl_fields ext ver dnssec ltac:(lia) ltac:(lia))).
Qed.

Lemma record_apl_acc (pre : bytes) (r : rr) (w : bytes) :
  apl_rr_wf r = true -> renders_rr pre r w -> lenN w <= 65535 ->
  bytes_ok w /\ exists r', acc false record pre w r' /\ rr_eqv r' r.
Proof.
  intros Hwf Hr Hlen. pose proof (rdata_apl_ok r Hwf) as Hd.
  unfold apl_rr_wf in Hwf. apply andb_true_iff in Hwf. destruct Hwf as [Hwf Hdat]. wf_split Hwf.
  destruct (common_wf_inv r Hwf) as (Hn & Ht & Httl).
  destruct (r_data r) as [| |items|] eqn:Ed; try discriminate.
  apply (record_acc_gen pre r w Hd Hn Ht); [| |exact Hr|exact Hlen].
  - unfold wire_class. rewrite Ed. lia.
  - unfold wire_ttl. rewrite Ed. exact Httl.
Qed.

Lemma record_svcb_acc (pre : bytes) (r : rr) (w : bytes) :
  svcb_rr_wf r = true -> renders_rr pre r w -> lenN w <= 65535 ->
  bytes_ok w /\ exists r', acc false record pre w r' /\ rr_eqv r' r.
Proof.
  intros Hwf Hr Hlen. pose proof (rdata_svcb_ok r Hwf) as Hd.
  unfold svcb_rr_wf in Hwf. apply andb_true_iff in Hwf. destruct Hwf as [Hwf Hdat]. wf_split Hwf.
  destruct (common_wf_inv r Hwf) as (Hn & Ht & Httl).
  destruct (r_data r) as [| | |prio target ps] eqn:Ed; try discriminate.
  apply (record_acc_gen pre r w Hd Hn Ht); [| |exact Hr|exact Hlen].
  - unfold wire_class. rewrite Ed. lia.
  - unfold wire_ttl. rewrite Ed. exact Httl.
Qed.

Lemma record_acc (pre : bytes) (r : rr) (w : bytes) :
  rr_wf r = true -> renders_rr pre r w -> lenN w <= 65535 ->
  bytes_ok w /\ exists r', acc false record pre w r' /\ rr_eqv r' r.
Proof.
  unfold rr_wf. destruct (lookup (r_type r) enc_dispatch) as [[ec f|[| | |]]|]; intros H; try discriminate.
  - apply record_plain_acc, H.
  - apply record_opt_acc, H.
  - apply record_apl_acc, H.
  - apply record_svcb_acc, H.
  - apply record_svcb_acc, H.
Qed.

(* ---- the theorems ---- *)
Theorem render_accepted_plain (m : dns) (b : bytes) :
  dns_wf_plain m = true -> renders_dns m b -> lenN b <= 65535 ->
  exists m', spec_Dns b = Some m' /\ dns_eqv m' m.
Proof. intros H1 H2 H3. exact (proj2 (render_accepted_gen plain_wf record_plain_acc m b H1 H2 H3)). Qed.

Theorem render_bytes_ok (m : dns) (b : bytes) :
  dns_wf m = true -> renders_dns m b -> lenN b <= 65535 -> bytes_ok b.
Proof. intros H1 H2 H3. exact (proj1 (render_accepted_gen rr_wf record_acc m b H1 H2 H3)). Qed.

Theorem render_accepted (m : dns) (b : bytes) :
  dns_wf m = true -> renders_dns m b -> lenN b <= 65535 ->
  exists m', spec_Dns b = Some m' /\ dns_eqv m' m.
Proof. intros H1 H2 H3. exact (proj2 (render_accepted_gen rr_wf record_acc m b H1 H2 H3)). Qed.

Theorem render_accepted_dec (m : dns) (b : bytes) :
  dns_wf m = true -> renders_dns m b -> lenN b <= 65535 ->
  exists m' s, dec_Dns b = DOk m' s /\ dns_eqv m' m.
Proof.
  intros H1 H2 H3. destruct (render_accepted_gen rr_wf record_acc m b H1 H2 H3) as (Hb & m' & Hs & He).
  destruct (complete_Dns b m' Hb Hs) as [s Hd]. exists m', s. split; assumption.
Qed.

(* ---- small derived rules, for exhibiting renderings ---- *)
Lemma renders_seq_one {A} (R : bytes -> A -> bytes -> Prop) (pre : bytes) (x : A) (w : bytes) :
  R pre x w -> renders_seq R pre [x] w.
Proof. intro H. rewrite <- (app_nil_r w). apply RS_cons; [exact H|apply RS_nil]. Qed.
Lemma renders_fields_one (pre : bytes) (k : sk) (v : list fv) (w : bytes) :
  renders_field pre k v w -> renders_fields pre [k] v w.
Proof. intro H. rewrite <- (app_nil_r w), <- (app_nil_r v). apply RFs_cons; [exact H|apply RFs_nil]. Qed.

(* tactics for exhibiting name renderings: a case variant, a literal label, a pointer *)
Ltac render_ci := repeat (constructor; [unfold ci_octet; lia|]); constructor.
Ltac render_label l' w := apply (RN_label _ _ l' _ w); [render_ci|].
Ltac render_pointer q :=
  eapply (RN_pointer _ _ q);
  [apply N.ltb_lt; vm_compute; reflexivity | apply N.leb_le; reflexivity | vm_compute; reflexivity
  | cbn [x_hops]; lia | cbn [x_name]; repeat (constructor; [render_ci|]); constructor].
