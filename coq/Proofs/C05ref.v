(* C05, last step: the INDEPENDENT reference decoder (Spec/Wire.v) reads the encoder's output back as
   the value.  Corollary of the model round trip (Proofs/C05.v) and of the soundness of the model decoder
   with respect to the reference decoder (Proofs/CorrTop.v, property C03). *)
From DNS Require Import Model.Dec Model.Enc Spec.Wire
  Proofs.EncBytes Proofs.RtPrim Proofs.RtMsg Proofs.C05 Proofs.RtDecWf3 Proofs.CorrMsg Proofs.CorrTop.
Local Open Scope N_scope.

Lemma wf_output_bytes_ok (m : dns) (b : bytes) :
  dns_wf m = true -> enc_Dns m = Ok b -> bytes_ok b.
Proof.
  intros Hwf Henc.
  destruct (dns_wf_gen_inv rr_wf m Hwf) as (_ & _ & Hq & Ha & Hn & Hr & _).
  apply (enc_Dns_bytes_ok m b); [|exact Henc]. unfold dns_bytes_ok.
  split; [|split; [|split]]; try (apply (rr_ok_section_bytes rr_wf rr_wf_bytes_ok); assumption).
  rewrite forallb_forall in Hq. rewrite Forall_forall. intros q Hqin.
  destruct (question_wf_inv q (Hq q Hqin)) as (Hnm & _). apply name_wf_bytes_ok, Hnm.
Qed.

Theorem reference_reads_back (m : dns) (b : bytes) :
  dns_wf m = true -> enc_Dns m = Ok b ->
  exists m', spec_Dns b = Some m' /\ dns_eqv m' m.
Proof.
  intros Hwf Henc.
  destruct (C05_roundtrip_proof m b Hwf Henc) as (m' & s & Hdec & Heqv).
  exists m'. split; [|exact Heqv].
  apply (sound_Dns b m' s (wf_output_bytes_ok m b Hwf Henc) Hdec).
Qed.

(* C02: an accepted message, re-encoded, is read back by the reference decoder as the same message *)
Theorem reencode_reference (b : bytes) (m : dns) (s : dst) (b' : bytes) :
  bytes_ok b -> dec_Dns b = DOk m s -> enc_Dns m = Ok b' ->
  exists m', spec_Dns b' = Some m' /\ dns_eqv m' m.
Proof.
  intros Hb Hdec Henc. apply reference_reads_back; [|exact Henc].
  exact (RtDecWf3.decoded_wf b m s Hb Hdec).
Qed.
