(* C15, part 1 — the OPT TTL word (RFC 6891 6.1.3): extended RCODE in bits 31..24, version in bits
   23..16, DO in bit 15, Z (bits 14..0) must be zero.  src/decode/rr/edns/rfc_6891.rs,
   src/encode/rr/edns/rfc_6891.rs. *)
From DNS Require Import Model.Dec Model.Enc Proofs.Enum.
Require Import ZArith ZifyBool ZifyN ZifyNat.
Local Open Scope N_scope.
Ltac Zify.zify_post_hook ::= Z.div_mod_to_equations.

(* ---- generated constants: these break when the Rust source changes ---- *)
Lemma DEC_OPT_extend_rcode_val : DEC_OPT_extend_rcode = (24, 255). Proof. reflexivity. Qed.
Lemma DEC_OPT_version_val : DEC_OPT_version = (16, 255). Proof. reflexivity. Qed.
Lemma DEC_OPT_flags_hi_val : DEC_OPT_flags_hi = (8, 255). Proof. reflexivity. Qed.
Lemma DEC_OPT_flags_lo_val : DEC_OPT_flags_lo = 255. Proof. reflexivity. Qed.
Lemma EDNS_DNSSEC_MASK_val : EDNS_DNSSEC_MASK = 128. Proof. reflexivity. Qed.
Lemma ENC_OPT_extend_rcode_shift_val : ENC_OPT_extend_rcode_shift = 24. Proof. reflexivity. Qed.
Lemma ENC_OPT_version_shift_val : ENC_OPT_version_shift = 16. Proof. reflexivity. Qed.
Lemma ENC_OPT_dnssec_shift_val : ENC_OPT_dnssec_shift = 8. Proof. reflexivity. Qed.

Definition P8 : N := 256.
Definition P15 : N := 32768.
Definition P16 : N := 65536.
Definition P24 : N := 16777216.
Definition P32 : N := 4294967296.
Lemma P8_val : 2 ^ 8 = 256. Proof. reflexivity. Qed.
Lemma P15_val : 2 ^ 15 = 32768. Proof. reflexivity. Qed.
Lemma P16_val : 2 ^ 16 = 65536. Proof. reflexivity. Qed.
Lemma P24_val : 2 ^ 24 = 16777216. Proof. reflexivity. Qed.
Lemma P32_val : 2 ^ 32 = 4294967296. Proof. reflexivity. Qed.

(* ---- octet extraction ---- *)
Lemma land_255 x : N.land x 255 = x mod 256.
Proof. change 255 with (N.ones 8). rewrite N.land_ones. reflexivity. Qed.
Lemma land_32767 x : N.land x 32767 = x mod 32768.
Proof. change 32767 with (N.ones 15). rewrite N.land_ones. reflexivity. Qed.
Lemma shr_land k x : N.land (N.shiftr x k) 255 = (x / 2 ^ k) mod 256.
Proof. rewrite land_255, N.shiftr_div_pow2. reflexivity. Qed.

Lemma testbit15 x : N.testbit x 15 = ((x / 32768) mod 2 =? 1).
Proof.
  pose proof (N.testbit_spec' x 15) as H. rewrite P15_val in H.
  destruct (N.testbit x 15); cbn [N.b2n] in H; rewrite <- H; reflexivity.
Qed.

(* ---- the decoder's view of the word ---- *)
Lemma rr_opt_ttl_unfold ttl s :
  rr_opt_ttl ttl s =
  (let ext := ttl / 16777216 mod 256 in
   let ver := ttl / 65536 mod 256 in
   let b1 := ttl / 256 mod 256 in
   let b0 := ttl mod 256 in
   if b1 =? 0 then
     if negb (b0 =? 0) then DErr (EOPTZero, [b0]) (d_cost s) else DOk (ext, ver, false) s
   else if b1 =? 128 then
     if negb (b0 =? 0) then DErr (EOPTZero, [b0]) (d_cost s) else DOk (ext, ver, true) s
   else DErr (EOPTZero, [b1]) (d_cost s)).
Proof.
  unfold rr_opt_ttl. cbv zeta.
  rewrite DEC_OPT_extend_rcode_val, DEC_OPT_version_val, DEC_OPT_flags_hi_val, DEC_OPT_flags_lo_val,
    EDNS_DNSSEC_MASK_val.
  cbn [fst snd]. rewrite !shr_land, land_255, P24_val, P16_val, P8_val.
  destruct (ttl / 256 mod 256 =? 0).
  - destruct (negb (ttl mod 256 =? 0)); reflexivity.
  - destruct (ttl / 256 mod 256 =? 128); [|reflexivity].
    destruct (negb (ttl mod 256 =? 0)); reflexivity.
Qed.

(* accepted exactly when the fifteen Z bits are clear; the three fields are the RFC 6891 fields *)
Lemma rr_opt_ttl_accept ttl s : ttl < 4294967296 -> ttl mod 32768 = 0 ->
  rr_opt_ttl ttl s = DOk (ttl / 16777216, ttl / 65536 mod 256, N.testbit ttl 15) s.
Proof.
  intros Hlt Hz. rewrite rr_opt_ttl_unfold. cbv zeta. rewrite testbit15.
  assert (ttl / 16777216 mod 256 = ttl / 16777216) as -> by lia.
  assert (ttl mod 256 = 0) as E0 by lia. rewrite E0. cbn [N.eqb negb].
  destruct (ttl / 256 mod 256 =? 0) eqn:E1.
  - assert ((ttl / 32768) mod 2 =? 1 = false) as -> by lia. reflexivity.
  - destruct (ttl / 256 mod 256 =? 128) eqn:E2.
    + assert ((ttl / 32768) mod 2 =? 1 = true) as -> by lia. reflexivity.
    + exfalso. lia.
Qed.

Lemma rr_opt_ttl_reject ttl s : ttl mod 32768 <> 0 ->
  exists v, v <> 0 /\ v < 256 /\ rr_opt_ttl ttl s = DErr (EOPTZero, [v]) (d_cost s).
Proof.
  intros Hz. rewrite rr_opt_ttl_unfold. cbv zeta.
  destruct (ttl / 256 mod 256 =? 0) eqn:E1.
  - destruct (ttl mod 256 =? 0) eqn:E0; cbn [negb]; [exfalso; lia|].
    exists (ttl mod 256). split; [lia|]. split; [lia|reflexivity].
  - destruct (ttl / 256 mod 256 =? 128) eqn:E2.
    + destruct (ttl mod 256 =? 0) eqn:E0; cbn [negb]; [exfalso; lia|].
      exists (ttl mod 256). split; [lia|]. split; [lia|reflexivity].
    + exists (ttl / 256 mod 256). split; [lia|]. split; [lia|reflexivity].
Qed.

(* ---- the encoder's word ---- *)
Definition ttl_word (ext ver : N) (dnssec : bool) : N :=
  ext * 16777216 + ver * 65536 + (if dnssec then 32768 else 0).

Definition enc_ttl_ok (e : N) : bool :=
  forallb (fun v => (enc_opt_ttl e v true =? ttl_word e v true) && (enc_opt_ttl e v false =? ttl_word e v false))
          (nrange 256).
Lemma enc_ttl_all : forallb enc_ttl_ok (nrange 256) = true.
Proof. vm_compute. reflexivity. Qed.

Lemma enc_opt_ttl_val ext ver dnssec : ext < 256 -> ver < 256 ->
  enc_opt_ttl ext ver dnssec = ttl_word ext ver dnssec.
Proof.
  intros He Hv. pose proof enc_ttl_all as H. rewrite forallb_forall in H.
  specialize (H ext (nrange_in 256 ext He)). unfold enc_ttl_ok in H. rewrite forallb_forall in H.
  specialize (H ver (nrange_in 256 ver Hv)). cbv beta in H.
  apply andb_true_iff in H. destruct H as [H1 H2]. apply N.eqb_eq in H1. apply N.eqb_eq in H2.
  destruct dnssec; assumption.
Qed.

Lemma ttl_word_lt ext ver dnssec : ext < 256 -> ver < 256 -> ttl_word ext ver dnssec < 4294967296.
Proof. intros He Hv. unfold ttl_word. destruct dnssec; lia. Qed.

Lemma ttl_word_fields ext ver dnssec : ext < 256 -> ver < 256 ->
  let w := ttl_word ext ver dnssec in
  w mod 32768 = 0 /\ w / 16777216 = ext /\ w / 65536 mod 256 = ver /\ N.testbit w 15 = dnssec.
Proof.
  intros He Hv. cbv zeta. rewrite testbit15. unfold ttl_word.
  split; [destruct dnssec; lia|]. split; [destruct dnssec; lia|]. split; [destruct dnssec; lia|].
  destruct dnssec.
  - assert ((ext * 16777216 + ver * 65536 + 32768) / 32768 mod 2 = 1) as -> by lia. reflexivity.
  - assert ((ext * 16777216 + ver * 65536 + 0) / 32768 mod 2 = 0) as -> by lia. reflexivity.
Qed.

(* decode after encode *)
Lemma opt_ttl_dec_enc ext ver dnssec s : ext < 256 -> ver < 256 ->
  rr_opt_ttl (enc_opt_ttl ext ver dnssec) s = DOk (ext, ver, dnssec) s.
Proof.
  intros He Hv. rewrite enc_opt_ttl_val by assumption.
  pose proof (ttl_word_fields ext ver dnssec He Hv) as H. cbv zeta in H.
  destruct H as (H0 & H1 & H2 & H3).
  rewrite rr_opt_ttl_accept; [|apply ttl_word_lt; assumption|exact H0].
  rewrite H1, H2, H3. reflexivity.
Qed.

(* encode after decode, on accepted words *)
Lemma opt_ttl_enc_dec ttl : ttl < 4294967296 -> ttl mod 32768 = 0 ->
  enc_opt_ttl (ttl / 16777216) (ttl / 65536 mod 256) (N.testbit ttl 15) = ttl.
Proof.
  intros Hlt Hz. rewrite enc_opt_ttl_val by lia. unfold ttl_word. rewrite testbit15.
  destruct ((ttl / 32768) mod 2 =? 1) eqn:E; lia.
Qed.

(* the whole statement *)
Lemma opt_ttl_spec :
  (forall ttl s, ttl < 4294967296 ->
     N.land ttl 32767 = ttl mod 32768 /\
     (ttl mod 32768 = 0 ->
        rr_opt_ttl ttl s = DOk (ttl / 16777216, ttl / 65536 mod 256, N.testbit ttl 15) s) /\
     (ttl mod 32768 <> 0 ->
        exists v, v <> 0 /\ v < 256 /\ rr_opt_ttl ttl s = DErr (EOPTZero, [v]) (d_cost s)) /\
     ((exists r s', rr_opt_ttl ttl s = DOk r s') <-> ttl mod 32768 = 0)) /\
  (forall ext ver dnssec, ext < 256 -> ver < 256 ->
     enc_opt_ttl ext ver dnssec = ext * 16777216 + ver * 65536 + (if dnssec then 32768 else 0) /\
     enc_opt_ttl ext ver dnssec < 4294967296 /\
     forall s, rr_opt_ttl (enc_opt_ttl ext ver dnssec) s = DOk (ext, ver, dnssec) s) /\
  (forall ttl, ttl < 4294967296 -> ttl mod 32768 = 0 ->
     ttl / 16777216 < 256 /\ ttl / 65536 mod 256 < 256 /\
     enc_opt_ttl (ttl / 16777216) (ttl / 65536 mod 256) (N.testbit ttl 15) = ttl).
Proof.
  split; [|split].
  - intros ttl s Hlt. split; [apply land_32767|]. split; [apply rr_opt_ttl_accept; exact Hlt|].
    split; [apply rr_opt_ttl_reject|]. split.
    + intros (r & s' & H). destruct (N.eq_dec (ttl mod 32768) 0) as [E|E]; [exact E|].
      destruct (rr_opt_ttl_reject ttl s E) as (v & _ & _ & Hv). rewrite Hv in H. discriminate H.
    + intros E. eexists. eexists. apply rr_opt_ttl_accept; assumption.
  - intros ext ver dnssec He Hv. split; [apply enc_opt_ttl_val; assumption|].
    split; [rewrite enc_opt_ttl_val by assumption; apply ttl_word_lt; assumption|].
    intros s. apply opt_ttl_dec_enc; assumption.
  - intros ttl Hlt Hz. split; [lia|]. split; [lia|]. apply opt_ttl_enc_dec; assumption.
Qed.
