(* C03 / C04: the two directions of the model/reference equivalence at the five entry points, and the
   record accessors against the reference's reading of the wire header. *)
From Coq Require Import ZifyBool ZifyN ZifyNat.
From DNS Require Import Model.Dec Spec.Names Spec.Iana Spec.Wire Proofs.DecBase
  Proofs.CorrBase Proofs.CorrPrim Proofs.CorrRecord Proofs.CorrMsg.
Local Open Scope N_scope.

(* ---- soundness: what the library accepts means exactly what the reference says ---- *)
Lemma sound_Dns : forall (b : bytes) (m : dns) (s : dst), bytes_ok b -> dec_Dns b = DOk m s -> spec_Dns b = Some m.
Proof. intros b m s Hb H. apply (dec_spec_iff_Dns b Hb m). exists s. exact H. Qed.
Lemma sound_RR : forall (b : bytes) (r : rr) (s : dst), bytes_ok b -> lenN b < 2 ^ 62 ->
  dec_RR b = DOk r s -> spec_RR b = Some r.
Proof. intros b r s Hb Hm H. apply (dec_spec_iff_RR b Hb Hm r). exists s. exact H. Qed.
Lemma sound_Question : forall (b : bytes) (q : Values.question) (s : dst), bytes_ok b -> lenN b < 2 ^ 62 ->
  dec_Question b = DOk q s -> spec_Question b = Some q.
Proof. intros b q s Hb Hm H. apply (dec_spec_iff_Question b Hb Hm q). exists s. exact H. Qed.
Lemma sound_Flags : forall (b : bytes) (f : flags) (s : dst), bytes_ok b -> lenN b < 2 ^ 62 ->
  dec_Flags b = DOk f s -> spec_Flags b = Some f.
Proof. intros b f s Hb Hm H. apply (dec_spec_iff_Flags b Hb Hm f). exists s. exact H. Qed.
Lemma sound_DomainName : forall (b : bytes) (n : name) (s : dst), bytes_ok b -> lenN b < 2 ^ 62 ->
  dec_DomainName b = DOk n s -> spec_DomainName b = Some n.
Proof. intros b n s Hb Hm H. apply (dec_spec_iff_DomainName b Hb Hm n). exists s. exact H. Qed.

(* ---- completeness: everything the reference accepts is accepted, with the same value ---- *)
Lemma complete_Dns : forall (b : bytes) (m : dns), bytes_ok b -> spec_Dns b = Some m -> exists s, dec_Dns b = DOk m s.
Proof. intros b m Hb H. apply (dec_spec_iff_Dns b Hb m). exact H. Qed.
Lemma complete_RR : forall (b : bytes) (r : rr), bytes_ok b -> lenN b < 2 ^ 62 ->
  spec_RR b = Some r -> exists s, dec_RR b = DOk r s.
Proof. intros b r Hb Hm H. apply (dec_spec_iff_RR b Hb Hm r). exact H. Qed.
Lemma complete_Question : forall (b : bytes) (q : Values.question), bytes_ok b -> lenN b < 2 ^ 62 ->
  spec_Question b = Some q -> exists s, dec_Question b = DOk q s.
Proof. intros b q Hb Hm H. apply (dec_spec_iff_Question b Hb Hm q). exact H. Qed.
Lemma complete_Flags : forall (b : bytes) (f : flags), bytes_ok b -> lenN b < 2 ^ 62 ->
  spec_Flags b = Some f -> exists s, dec_Flags b = DOk f s.
Proof. intros b f Hb Hm H. apply (dec_spec_iff_Flags b Hb Hm f). exact H. Qed.
Lemma complete_DomainName : forall (b : bytes) (n : name), bytes_ok b -> lenN b < 2 ^ 62 ->
  spec_DomainName b = Some n -> exists s, dec_DomainName b = DOk n s.
Proof. intros b n Hb Hm H. apply (dec_spec_iff_DomainName b Hb Hm n). exact H. Qed.

(* ---- accessors: the wire header of a record as the reference reads it ---- *)
Definition rr_header : P (name * N * N * N) :=
  owner <~ pname ;; t <~ num 2 ;; cls <~ num 2 ;; ttl <~ num 4 ;; pret (owner, t, cls, ttl).

Lemma in_only_cls (t cls : N) : in_only t = true -> in_only t && negb (cls =? 1) = false -> cls = 1.
Proof. intros -> H. cbn [andb] in H. destruct (cls =? 1) eqn:E; [lia|discriminate]. Qed.

Lemma rdata_of_header (t cls ttl : N) (owner : name) (b : bytes) (a e : N) (r : rr) (a' : N) :
  rdata_of t cls ttl owner b a e = Some (r, a') ->
  r_type r = t /\ (t <> 41 -> r_ttl r = ttl /\ r_class r = cls /\ r_name r = owner).
Proof.
  unfold rdata_of. destruct (t =? 41) eqn:E41.
  - destruct owner as [|l o]; [|discriminate]. destruct (ttl mod 32768 =? 0); [|discriminate].
    unfold pbind, pret. destruct (many_to_end option_ b a e) as [[opts a1]|]; [|discriminate].
    intro H. cbv beta in H. injection H as <- <-. cbn [r_type]. split; [reflexivity|]. intro Hn. lia.
  - destruct (negb (mem cls (codes iana_Class))); [discriminate|].
    destruct (in_only t && negb (cls =? 1)) eqn:Eio; [discriminate|].
    destruct (t =? 42) eqn:E42.
    + unfold pbind, pret. destruct (many_to_end apl_item b a e) as [[items a1]|]; [|discriminate].
      intro H. cbv beta in H. injection H as <- <-. cbn [r_type r_ttl r_class r_name]. split; [reflexivity|]. intros _.
      split; [reflexivity|]. split; [|reflexivity]. symmetry. apply (in_only_cls t cls); [|exact Eio].
      apply N.eqb_eq in E42. subst t. reflexivity.
    + destruct ((t =? 64) || (t =? 65)) eqn:E64.
      * unfold pbind, pret, pnone. destruct (num 2 b a e) as [[prio a1]|]; [|discriminate].
        destruct (pname b a1 e) as [[target a2]|]; [|discriminate].
        assert (G : forall (ps : list svcparam) (a3 : N),
                  match as_set [] ps with
                  | Some set => fun (_ : bytes) (s _ : N) =>
                                Some ({| r_type := t; r_name := owner; r_class := 1; r_ttl := ttl;
                                         r_data := RSvcb prio target set |}, s)
                  | None => fun (_ : bytes) (_ _ : N) => None
                  end b a3 e = Some (r, a') ->
                  r_type r = t /\ r_ttl r = ttl /\ r_class r = 1 /\ r_name r = owner).
        { intros ps a3. destruct (as_set [] ps) as [set|]; [|discriminate].
          intro H. injection H as <- <-. cbn [r_type r_ttl r_class r_name].
          split; [reflexivity|]. split; [reflexivity|]. split; reflexivity. }
        intro H. assert (G' : r_type r = t /\ r_ttl r = ttl /\ r_class r = 1 /\ r_name r = owner).
        { destruct (prio =? 0); [exact (G [] a2 H)|].
          destruct (many_to_end svc_param b a2 e) as [[ps a3]|]; [exact (G ps a3 H)|discriminate]. }
        clear G H. destruct G' as (G1 & G2 & G3 & G4). split; [exact G1|]. intros _.
        split; [exact G2|]. split; [|exact G4]. rewrite G3. symmetry. apply (in_only_cls t cls); [|exact Eio].
        apply orb_prop in E64. destruct E64 as [E|E]; apply N.eqb_eq in E; subst t; reflexivity.
      * destruct (fmt t) as [ks|]; [|discriminate]. unfold pbind, pret.
        destruct (fields ks b a e) as [[vs a1]|]; [|discriminate].
        intro H. cbv beta in H. injection H as <- <-. cbn [r_type r_ttl r_class r_name]. split; [reflexivity|]. intros _.
        split; [reflexivity|]. split; reflexivity.
Qed.

Lemma record_header (b : bytes) (a e : N) (r : rr) (a' : N) : record b a e = Some (r, a') ->
  exists owner t cls ttl a1, rr_header b a e = Some ((owner, t, cls, ttl), a1) /\ r_type r = t /\
    (t <> 41 -> r_ttl r = ttl /\ r_class r = cls /\ r_name r = owner).
Proof.
  unfold record, rr_header, pbind, pret, pnone.
  destruct (pname b a e) as [[owner a1]|]; [|discriminate].
  destruct (num 2 b a1 e) as [[t a2]|]; [|discriminate].
  destruct (num 2 b a2 e) as [[cls a3]|]; [|discriminate].
  destruct (num 4 b a3 e) as [[ttl a4]|]; [|discriminate].
  destruct (num 2 b a4 e) as [[rdlen a5]|]; [|discriminate].
  destruct (mem t (codes iana_Type)); [|discriminate].
  intro H. apply within_inv in H. destruct H as (_ & H & _). apply rdata_of_header in H.
  exists owner, t, cls, ttl, a4. split; [reflexivity|exact H].
Qed.

Lemma accessors : forall (b : bytes) (r : rr) (s : dst), bytes_ok b -> lenN b < 2 ^ 62 -> dec_RR b = DOk r s ->
  spec_RR b = Some r /\
  exists owner t cls ttl a1, rr_header b 0 (lenN b) = Some ((owner, t, cls, ttl), a1) /\ r_type r = t /\
    (t = 41 -> rr_get_ttl r = None /\ rr_get_class r = None) /\
    (t <> 41 -> rr_get_ttl r = Some ttl /\ rr_get_class r = Some cls /\ r_name r = owner).
Proof.
  intros b r s Hb Hm H. pose proof (sound_RR b r s Hb Hm H) as Hs. split; [exact Hs|].
  apply prefix_of_iff in Hs. destruct Hs as (a' & Hs). apply record_header in Hs.
  destruct Hs as (owner & t & cls & ttl & a1 & H1 & H2 & H3).
  exists owner, t, cls, ttl, a1. split; [exact H1|]. split; [exact H2|].
  unfold rr_get_ttl, rr_get_class, TYPE_OPT. rewrite H2. split.
  - intros ->. split; reflexivity.
  - intro Hn. destruct (H3 Hn) as (-> & -> & ->). assert (t =? 41 = false) as -> by lia.
    split; [reflexivity|]. split; reflexivity.
Qed.
