(* Facts about the generated source audit (Gen/Audit.v, re-read from /repo/src on every run). *)
From Coq Require Import String NArith List.
From DNS Require Import Gen.Audit.
Import ListNotations.
Local Open Scope N_scope. Local Open Scope string_scope.

(* C14: no static / thread-local / lazily initialised / interior-mutable / atomic / reference-counted
   state, no environment, clock or random source, no unsafe block in non-test code *)
Lemma no_shared_state_proof : audit_shared_state = [].
Proof. reflexivity. Qed.

(* C01: the panic-capable constructs of the non-test source are exactly the ones the model accounts for.
   Each entry below is covered by a checked operation of Model/Dec.v / Model/Enc.v (Base/Result.v lists
   the sites) or is an index into a fixed-size array with a literal in-range index (EUI48/EUI64, u16/u32/
   u64 writers, L32/L64 accessors, enum macros).  A new unwrap/index/slice in the library changes the
   generated table and breaks this lemma. *)
Definition known_panic_sites : list (string * list (string * N)) :=
  [("decode/helpers.rs", [("index", 1)]);                                  (* SU8Index: buffer[0] after read(1) *)
   ("decode/rr/edns/rfc_7873.rs", [("unwrap", 2); ("range_index", 3)]);    (* SCookieClient / SCookieServer *)
   ("decode/rr/rfc_7043.rs", [("index", 14)]);                             (* literal indices into [u8; 6] / [u8; 8] *)
   ("decode/rr/subtypes.rs", [("range_index", 4); ("copy_from_slice", 2)]);(* SCopyIpv4 / SCopyIpv6 *)
   ("encode/domain_name.rs", [("range_index", 1); ("index", 1)]);          (* SNameSliceIndex, guarded by is_empty *)
   ("encode/helpers.rs", [("index", 24)]);                                 (* literal indices into to_be_bytes arrays; SSetIndex after the length check *)
   ("encode/rr/rfc_3123.rs", [("index", 1)]);                              (* SSetIndex: address length octet *)
   ("encode/rr/rfc_7043.rs", [("index", 14)]);                             (* SEuiIndex: literal indices *)
   ("rr/macros.rs", [("index", 8)]);
   ("rr/rfc_6742.rs", [("index", 4)]);
   ("rr/rfc_7043.rs", [("index", 14)]);
   ("rr/subtypes.rs", [("split_at", 2); ("index", 2)])].                   (* SPrefixIndex / SPrefixSplit / SPrefixShift *)

(* no NEW panic-capable construct: every (file, construct) of the audit occurs in the known table with at
   least that count.  (Removing a site cannot add a panic, so fewer is fine; a new file, a new kind of
   construct in a file, or a higher count is not.) *)
Fixpoint count_of (k : string) (l : list (string * N)) : N :=
  match l with [] => 0 | (k', n) :: r => if String.eqb k k' then n else count_of k r end.
Fixpoint row_of (f : string) (t : list (string * list (string * N))) : list (string * N) :=
  match t with [] => [] | (f', r) :: t' => if String.eqb f f' then r else row_of f t' end.
Definition sites_within (audit known : list (string * list (string * N))) : bool :=
  forallb (fun fr : string * list (string * N) =>
             forallb (fun kn : string * N => N.leb (snd kn) (count_of (fst kn) (row_of (fst fr) known))) (snd fr)) audit.

Lemma panic_sites_known_proof : sites_within audit_panic_sites known_panic_sites = true.
Proof. vm_compute. reflexivity. Qed.
