(* C08, part 3: EIllTyped (mapped to OutOfFuel by erun) is unreachable for well-typed records.
   [rr_typed r]: the type is in the encoder's dispatch table, the RDATA constructor is the one the
   writer expects, and a field record lists exactly one value per value-carrying field of the
   DECODE table, in that order, each with the constructor its field kind demands. *)
From DNS Require Import Model.Dec Model.Enc Proofs.ListN Proofs.EncTotal.
Require Import ZArith ZifyBool ZifyN ZifyNat.
Local Open Scope N_scope.

Definition noill {A} (m : EM A) : Prop :=
  forall s, match m s with EIllTyped => False | _ => True end.

Lemma noill_pointwise {A} (m m' : EM A) : (forall s, m s = m' s) -> noill m -> noill m'.
Proof. intros E H s. rewrite <- E. apply H. Qed.
Lemma noill_ret {A} (a : A) : noill (eret a). Proof. intros s. exact I. Qed.
Lemma noill_fail {A} e : noill (@efail A e). Proof. intros s. exact I. Qed.
Lemma noill_panic {A} x : noill (fun _ : est => @EPanic A x). Proof. intros s. exact I. Qed.
Lemma noill_bind {A B} (m : EM A) (f : A -> EM B) : noill m -> (forall a, noill (f a)) -> noill (ebind m f).
Proof.
  intros Hm Hf s. unfold ebind. specialize (Hm s). destruct (m s) as [a s1|e|x|]; try exact I; [|contradiction].
  apply Hf.
Qed.
Lemma noill_put b : noill (put b). Proof. intros s. exact I. Qed.
Lemma noill_eu8 n : noill (eu8 n). Proof. apply noill_put. Qed.
Lemma noill_eu16 n : noill (eu16 n). Proof. apply noill_put. Qed.
Lemma noill_eu32 n : noill (eu32 n). Proof. apply noill_put. Qed.
Lemma noill_eu64 n : noill (eu64 n). Proof. apply noill_put. Qed.
Lemma noill_buf_len : noill buf_len. Proof. intros s. exact I. Qed.
Lemma noill_if {A} (b : bool) (x y : EM A) : noill x -> noill y -> noill (if b then x else y).
Proof. destruct b; auto. Qed.
Lemma noill_get_offset : noill get_offset.
Proof. unfold get_offset. apply noill_bind; [apply noill_buf_len|]. intros n. apply noill_if; [apply noill_ret|apply noill_fail]. Qed.
Lemma noill_estring b : noill (estring b).
Proof.
  unfold estring. cbv zeta. apply noill_if; [apply noill_fail|].
  apply noill_bind; [apply noill_eu8|]. intros _. apply noill_put.
Qed.
Lemma noill_emap {A} (f : A -> EM unit) l : (forall x, In x l -> noill (f x)) -> noill (emap f l).
Proof.
  induction l as [|x r IH]; intros Hf; cbn [emap]; [apply noill_ret|].
  apply noill_bind; [apply Hf; left; reflexivity|]. intros _. apply IH. intros y Hy. apply Hf. right. exact Hy.
Qed.
Lemma noill_emap_all {A} (f : A -> EM unit) l : (forall x, noill (f x)) -> noill (emap f l).
Proof. intros H. apply noill_emap. intros x _. apply H. Qed.
Lemma noill_set_u16 v i : noill (set_u16 v i).
Proof. intros s. unfold set_u16. cbv zeta. destruct (i + 2 - 1 <? lenN (e_buf s)); exact I. Qed.
Lemma noill_set_u8 v i : noill (set_u8 v i).
Proof. intros s. unfold set_u8. cbv zeta. destruct (i + 1 - 1 <? lenN (e_buf s)); exact I. Qed.
Lemma noill_create_length_index : noill create_length_index.
Proof. intros s. exact I. Qed.
Lemma noill_set_length_index li : noill (set_length_index li).
Proof.
  unfold set_length_index. apply noill_bind; [apply noill_buf_len|]. intros len.
  apply noill_if; [apply noill_panic|]. cbv zeta. apply noill_if; [apply noill_set_u16|apply noill_fail].
Qed.
Lemma noill_set_address_length_index neg ali : noill (set_address_length_index neg ali).
Proof.
  unfold set_address_length_index. apply noill_bind; [apply noill_buf_len|]. intros len.
  apply noill_if; [apply noill_panic|]. cbv zeta.
  apply noill_if; [|apply noill_fail]. apply noill_if; [apply noill_set_u8|apply noill_fail].
Qed.

Create HintDb noilldb.
#[export] Hint Resolve noill_ret noill_fail noill_panic noill_put noill_eu8 noill_eu16 noill_eu32 noill_eu64
  noill_buf_len noill_get_offset noill_estring noill_emap_all noill_create_length_index
  noill_set_length_index noill_set_address_length_index : noilldb.

Ltac noill_go :=
  lazymatch goal with
  | |- noill (ebind _ _) => apply noill_bind; [noill_go|intros ?; noill_go]
  | |- noill (if ?b then _ else _) => destruct b; noill_go
  | |- noill (match ?o with Some _ => _ | None => _ end) => destruct o; noill_go
  | |- _ => solve [auto with noilldb]
  end.

Lemma noill_compress n : noill (compress n).
Proof.
  intros s. unfold compress. destruct (idx_lookup n (e_idx s)) as [[i r]|]; [|exact I].
  destruct (cmp_apply OP_compress_offset ENC_MAX_OFFSET i); [exact I|].
  destruct (cmp_apply OP_compress_rec r DOMAIN_NAME_MAX_RECURSION); exact I.
Qed.
Lemma noill_elabel l : noill (elabel l).
Proof. unfold elabel. noill_go. Qed.
Lemma noill_merge_index local r : noill (merge_index local r).
Proof. intros s. unfold merge_index. destruct (cmp_apply OP_merge_rec r DOMAIN_NAME_MAX_RECURSION); exact I. Qed.
Lemma noill_enc_name_loop labels : forall local, noill (enc_name_loop labels local).
Proof.
  induction labels as [|l rest IH]; intros local; cbn [enc_name_loop].
  - apply noill_bind; [apply noill_estring|]. intros _. apply noill_merge_index.
  - apply noill_bind; [apply noill_compress|]. intros [r|]; [apply noill_merge_index|].
    apply noill_bind; [apply noill_elabel|]. intros index. apply IH.
Qed.
Lemma noill_enc_domain_name n : noill (enc_domain_name n).
Proof. unfold enc_domain_name. apply noill_bind; [intros s; exact I|]. intros _. apply noill_enc_name_loop. Qed.
Lemma noill_rr_address_with_length a m : noill (rr_address_with_length a m).
Proof.
  destruct (rr_address_with_length_put a m) as (b & H).
  apply (noill_pointwise (put b)); [intros s; symmetry; apply H|apply noill_put].
Qed.
#[export] Hint Resolve noill_enc_domain_name noill_rr_address_with_length : noilldb.

Lemma noill_enc_edns_option o : noill (enc_edns_option o).
Proof.
  destruct o as [e|c|n]; unfold enc_edns_option.
  - unfold enc_ecs. noill_go.
  - unfold enc_cookie. noill_go.
  - unfold enc_padding. noill_go.
Qed.
Lemma noill_enc_apitem i : noill (enc_apitem i).
Proof. unfold enc_apitem. noill_go. Qed.
Lemma noill_enc_service_parameter p : noill (enc_service_parameter p).
Proof.
  unfold enc_service_parameter. apply noill_bind; [apply noill_eu16|]. intros _.
  apply noill_bind; [apply noill_create_length_index|]. intros li.
  apply noill_bind; [|intros _; apply noill_set_length_index].
  destruct p; cbv zeta; noill_go.
Qed.
#[export] Hint Resolve noill_enc_edns_option noill_enc_apitem noill_enc_service_parameter : noilldb.

(* ---- typing of field records ---- *)
Inductive vclass := CN | CName | CBytes | CStrs | COptStr.
Definition vclass_eqb (a b : vclass) : bool :=
  match a, b with
  | CN, CN | CName, CName | CBytes, CBytes | CStrs, CStrs | COptStr, COptStr => true
  | _, _ => false
  end.
Lemma vclass_eqb_eq a b : vclass_eqb a b = true -> a = b.
Proof. destruct a; destruct b; cbn; congruence. Qed.

Definition fv_class (v : fv) : vclass :=
  match v with VN _ => CN | VName _ => CName | VBytes _ => CBytes | VStrs _ => CStrs | VOptStr _ => COptStr end.
(* the value constructor a field kind demands (none: the field carries no value, or is unknown) *)
Definition fk_class (k : fk) : option vclass :=
  match k with
  | FU8 | FU16 | FU32 | FU64 | FIp4 | FEnum8 _ _ | FEnum16 _ _ | FDnskeyFlags => Some CN
  | FName => Some CName
  | FStr | FRest | FRestUtf8 | FIp6 | FStrPsdn | FStrIsdn | FStrGpos | FTag => Some CBytes
  | FStrs1 => Some CStrs
  | FOptStrSa => Some COptStr
  | FConst8 _ _ | FUnknown => None
  end.
Definition kind_shape (k : fk) (v : fv) : bool :=
  match fk_class k with Some c => vclass_eqb c (fv_class v) | None => false end.
Fixpoint vals_shape (ks : list fk) (vals : list fv) : bool :=
  match ks, vals with
  | [], [] => true
  | k :: ks', v :: vs' => kind_shape k v && vals_shape ks' vs'
  | _, _ => false
  end.

(* the value-carrying fields of the decode table, in decode order *)
Definition dec_value_fields (t : N) : list (string * fk) :=
  match lookup t dec_dispatch with
  | Some (RdFields _ f) => filter (fun p => has_value (snd p)) f
  | _ => []
  end.
Lemma dec_value_names_eq t : dec_value_names t = map fst (dec_value_fields t).
Proof. unfold dec_value_names, dec_value_fields, value_names. destruct (lookup t dec_dispatch) as [[c f|sp]|]; reflexivity. Qed.

Definition rr_typed (r : rr) : bool :=
  match lookup (r_type r) enc_dispatch with
  | Some (WrFields _ _) =>
    match r_data r with
    | RFields vals => vals_shape (map snd (dec_value_fields (r_type r))) vals
    | _ => false
    end
  | Some (WrSpecial SpOpt) => match r_data r with ROpt _ _ _ _ _ => true | _ => false end
  | Some (WrSpecial SpApl) => match r_data r with RApl _ => true | _ => false end
  | Some (WrSpecial _) => match r_data r with RSvcb _ _ _ => true | _ => false end
  | None => false
  end.

Lemma noill_write_field k v : kind_shape k v = true -> noill (write_field k (Some v)).
Proof.
  destruct k; destruct v as [n|n|b|l|[o|]]; unfold kind_shape; cbn [fk_class fv_class vclass_eqb];
    intros H; try discriminate; unfold write_field; auto with noilldb.
Qed.
Lemma noill_write_const c e o : noill (write_field (FConst8 c e) o).
Proof. destruct o as [[]|]; unfold write_field; apply noill_eu8. Qed.

Fixpoint find_kind (nm : string) (df : list (string * fk)) : option fk :=
  match df with
  | [] => None
  | (n, k) :: r => if String.eqb nm n then Some k else find_kind nm r
  end.

Lemma assoc_shape nm : forall df vals k',
  vals_shape (map snd df) vals = true -> find_kind nm df = Some k' ->
  exists v, assoc nm (map fst df) vals = Some v /\ kind_shape k' v = true.
Proof.
  induction df as [|[n k] df IH]; intros vals k' Hs Hf; cbn [find_kind] in Hf; [discriminate|].
  destruct vals as [|v vals]; cbn [map snd fst vals_shape] in Hs; [discriminate|].
  apply andb_true_iff in Hs. destruct Hs as [Hk Hs]. cbn [map fst assoc].
  destruct (String.eqb nm n).
  - inversion Hf; subst k'. exists v. split; [reflexivity|exact Hk].
  - apply IH; assumption.
Qed.

(* the table check: every field the encoder writes is a constant, or is found BY NAME among the
   decoder's value-carrying fields with a kind of the same value class *)
Definition field_ok (t : N) (p : string * fk) : bool :=
  match fk_class (snd p) with
  | None => match snd p with FConst8 _ _ => true | _ => false end
  | Some c =>
    match find_kind (fst p) (dec_value_fields t) with
    | Some k' => match fk_class k' with Some c' => vclass_eqb c c' | None => false end
    | None => false
    end
  end.
Definition writer_ok (p : N * writer) : bool :=
  match snd p with WrFields _ f => forallb (field_ok (fst p)) f | WrSpecial _ => true end.
Lemma enc_table_typed : forallb writer_ok enc_dispatch = true.
Proof. vm_compute. reflexivity. Qed.

Lemma lookup_in {A} t (tbl : list (N * A)) w : lookup t tbl = Some w -> In (t, w) tbl.
Proof.
  induction tbl as [|[k v] r IH]; cbn [lookup]; [discriminate|].
  destruct (t =? k) eqn:E.
  - intros H. inversion H; subst. apply N.eqb_eq in E. subst. left. reflexivity.
  - intros H. right. apply IH. exact H.
Qed.

Lemma noill_write_fields t vals : vals_shape (map snd (dec_value_fields t)) vals = true ->
  forall f, forallb (field_ok t) f = true -> noill (write_fields (dec_value_names t) vals f).
Proof.
  intros Hs. induction f as [|[nm k] r IH]; intros Hf; cbn [write_fields]; [apply noill_ret|].
  cbn [forallb] in Hf. apply andb_true_iff in Hf. destruct Hf as [H1 H2].
  apply noill_bind; [|intros _; apply IH; exact H2].
  unfold field_ok in H1. cbn [fst snd] in H1.
  destruct (fk_class k) as [c|] eqn:Ek.
  - destruct (find_kind nm (dec_value_fields t)) as [k'|] eqn:Ef; [|discriminate].
    destruct (fk_class k') as [c'|] eqn:Ek'; [|discriminate].
    apply vclass_eqb_eq in H1. subst c'.
    destruct (assoc_shape nm _ vals k' Hs Ef) as (v & Ha & Hv).
    rewrite dec_value_names_eq, Ha. apply noill_write_field.
    unfold kind_shape in *. rewrite Ek. rewrite Ek' in Hv. exact Hv.
  - destruct k; try discriminate. apply noill_write_const.
Qed.

Lemma noill_enc_rr r : rr_typed r = true -> noill (enc_rr r).
Proof.
  unfold rr_typed, enc_rr. destruct (lookup (r_type r) enc_dispatch) as [[ec f|sp]|] eqn:El; [| |discriminate].
  - destruct (r_data r) as [vals| | |]; try discriminate. intros Hs.
    pose proof (proj1 (forallb_forall _ _) enc_table_typed _ (lookup_in _ _ _ El)) as Hw.
    unfold writer_ok in Hw. cbn [fst snd] in Hw.
    pose proof (noill_write_fields (r_type r) vals Hs f Hw).
    noill_go.
  - destruct sp; destruct (r_data r); try discriminate; intros _; noill_go.
Qed.

Lemma noill_enc_question q : noill (enc_question q).
Proof. unfold enc_question. noill_go. Qed.
Lemma noill_enc_flags f : noill (enc_flags f).
Proof. unfold enc_flags. noill_go. Qed.
Lemma noill_enc_count {A} (l : list A) : noill (enc_count l).
Proof. unfold enc_count. cbv zeta. noill_go. Qed.
#[export] Hint Resolve noill_enc_question noill_enc_flags noill_enc_count : noilldb.

Definition dns_typed (m : dns) : Prop :=
  Forall (fun r => rr_typed r = true) (m_an m) /\
  Forall (fun r => rr_typed r = true) (m_ns m) /\
  Forall (fun r => rr_typed r = true) (m_ar m).

Lemma noill_emap_rr l : Forall (fun r => rr_typed r = true) l -> noill (emap enc_rr l).
Proof. intros H. apply noill_emap. intros r Hr. apply noill_enc_rr. exact (proj1 (Forall_forall _ _) H r Hr). Qed.

Lemma noill_enc_dns m : dns_typed m -> noill (enc_dns m).
Proof.
  intros (H1 & H2 & H3). apply noill_emap_rr in H1, H2, H3.
  unfold enc_dns. noill_go.
Qed.

Lemma erun_typed m : noill m -> erun m <> OutOfFuel.
Proof. intros H. unfold erun. specialize (H e_init). destruct (m e_init); try discriminate. contradiction. Qed.

Theorem enc_Dns_typed m : dns_typed m -> enc_Dns m <> OutOfFuel.
Proof. intros H. apply erun_typed, noill_enc_dns. exact H. Qed.
Theorem enc_RR_typed r : rr_typed r = true -> enc_RR r <> OutOfFuel.
Proof. intros H. apply erun_typed, noill_enc_rr. exact H. Qed.
Theorem enc_Question_typed q : enc_Question q <> OutOfFuel.
Proof. apply erun_typed, noill_enc_question. Qed.
Theorem enc_Flags_typed f : enc_Flags f <> OutOfFuel.
Proof. apply erun_typed, noill_enc_flags. Qed.
Theorem enc_DomainName_typed n : enc_DomainName n <> OutOfFuel.
Proof. apply erun_typed, noill_enc_domain_name. Qed.
