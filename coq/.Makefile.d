Base/Bytes.vo Base/Bytes.glob Base/Bytes.v.beautified Base/Bytes.required_vo: Base/Bytes.v 
Base/Bytes.vio: Base/Bytes.v 
Base/Bytes.vos Base/Bytes.vok Base/Bytes.required_vos: Base/Bytes.v 
Base/Result.vo Base/Result.glob Base/Result.v.beautified Base/Result.required_vo: Base/Result.v Base/Bytes.vo
Base/Result.vio: Base/Result.v Base/Bytes.vio
Base/Result.vos Base/Result.vok Base/Result.required_vos: Base/Result.v Base/Bytes.vos
Base/Utf8.vo Base/Utf8.glob Base/Utf8.v.beautified Base/Utf8.required_vo: Base/Utf8.v Base/Bytes.vo
Base/Utf8.vio: Base/Utf8.v Base/Bytes.vio
Base/Utf8.vos Base/Utf8.vok Base/Utf8.required_vos: Base/Utf8.v Base/Bytes.vos
Gen/Tables.vo Gen/Tables.glob Gen/Tables.v.beautified Gen/Tables.required_vo: Gen/Tables.v 
Gen/Tables.vio: Gen/Tables.v 
Gen/Tables.vos Gen/Tables.vok Gen/Tables.required_vos: Gen/Tables.v 
Gen/Consts.vo Gen/Consts.glob Gen/Consts.v.beautified Gen/Consts.required_vo: Gen/Consts.v 
Gen/Consts.vio: Gen/Consts.v 
Gen/Consts.vos Gen/Consts.vok Gen/Consts.required_vos: Gen/Consts.v 
Model/Fmt.vo Model/Fmt.glob Model/Fmt.v.beautified Model/Fmt.required_vo: Model/Fmt.v Base/Bytes.vo Base/Result.vo
Model/Fmt.vio: Model/Fmt.v Base/Bytes.vio Base/Result.vio
Model/Fmt.vos Model/Fmt.vok Model/Fmt.required_vos: Model/Fmt.v Base/Bytes.vos Base/Result.vos
Gen/Formats.vo Gen/Formats.glob Gen/Formats.v.beautified Gen/Formats.required_vo: Gen/Formats.v Model/Fmt.vo
Gen/Formats.vio: Gen/Formats.v Model/Fmt.vio
Gen/Formats.vos Gen/Formats.vok Gen/Formats.required_vos: Gen/Formats.v Model/Fmt.vos
Model/Values.vo Model/Values.glob Model/Values.v.beautified Model/Values.required_vo: Model/Values.v Base/Bytes.vo Base/Result.vo Base/Utf8.vo Gen/Consts.vo Model/Fmt.vo
Model/Values.vio: Model/Values.v Base/Bytes.vio Base/Result.vio Base/Utf8.vio Gen/Consts.vio Model/Fmt.vio
Model/Values.vos Model/Values.vok Model/Values.required_vos: Model/Values.v Base/Bytes.vos Base/Result.vos Base/Utf8.vos Gen/Consts.vos Model/Fmt.vos
Model/Dec.vo Model/Dec.glob Model/Dec.v.beautified Model/Dec.required_vo: Model/Dec.v Model/Values.vo Gen/Tables.vo Gen/Formats.vo
Model/Dec.vio: Model/Dec.v Model/Values.vio Gen/Tables.vio Gen/Formats.vio
Model/Dec.vos Model/Dec.vok Model/Dec.required_vos: Model/Dec.v Model/Values.vos Gen/Tables.vos Gen/Formats.vos
Model/Enc.vo Model/Enc.glob Model/Enc.v.beautified Model/Enc.required_vo: Model/Enc.v Model/Values.vo Gen/Tables.vo Gen/Formats.vo Model/Dec.vo
Model/Enc.vio: Model/Enc.v Model/Values.vio Gen/Tables.vio Gen/Formats.vio Model/Dec.vio
Model/Enc.vos Model/Enc.vok Model/Enc.required_vos: Model/Enc.v Model/Values.vos Gen/Tables.vos Gen/Formats.vos Model/Dec.vos
Extract/Extract.vo Extract/Extract.glob Extract/Extract.v.beautified Extract/Extract.required_vo: Extract/Extract.v Model/Dec.vo Model/Enc.vo Model/Values.vo
Extract/Extract.vio: Extract/Extract.v Model/Dec.vio Model/Enc.vio Model/Values.vio
Extract/Extract.vos Extract/Extract.vok Extract/Extract.required_vos: Extract/Extract.v Model/Dec.vos Model/Enc.vos Model/Values.vos
Spec/Iana.vo Spec/Iana.glob Spec/Iana.v.beautified Spec/Iana.required_vo: Spec/Iana.v 
Spec/Iana.vio: Spec/Iana.v 
Spec/Iana.vos Spec/Iana.vok Spec/Iana.required_vos: Spec/Iana.v 
Spec/Names.vo Spec/Names.glob Spec/Names.v.beautified Spec/Names.required_vo: Spec/Names.v Base/Bytes.vo Model/Fmt.vo
Spec/Names.vio: Spec/Names.v Base/Bytes.vio Model/Fmt.vio
Spec/Names.vos Spec/Names.vok Spec/Names.required_vos: Spec/Names.v Base/Bytes.vos Model/Fmt.vos
Proofs/Enum.vo Proofs/Enum.glob Proofs/Enum.v.beautified Proofs/Enum.required_vo: Proofs/Enum.v Model/Dec.vo
Proofs/Enum.vio: Proofs/Enum.v Model/Dec.vio
Proofs/Enum.vos Proofs/Enum.vok Proofs/Enum.required_vos: Proofs/Enum.v Model/Dec.vos
Proofs/C11.vo Proofs/C11.glob Proofs/C11.v.beautified Proofs/C11.required_vo: Proofs/C11.v Model/Dec.vo Model/Enc.vo Spec/Iana.vo Proofs/Enum.vo
Proofs/C11.vio: Proofs/C11.v Model/Dec.vio Model/Enc.vio Spec/Iana.vio Proofs/Enum.vio
Proofs/C11.vos Proofs/C11.vok Proofs/C11.required_vos: Proofs/C11.v Model/Dec.vos Model/Enc.vos Spec/Iana.vos Proofs/Enum.vos
Props/C11.vo Props/C11.glob Props/C11.v.beautified Props/C11.required_vo: Props/C11.v Model/Dec.vo Model/Enc.vo Spec/Iana.vo Proofs/Enum.vo Proofs/C11.vo
Props/C11.vio: Props/C11.v Model/Dec.vio Model/Enc.vio Spec/Iana.vio Proofs/Enum.vio Proofs/C11.vio
Props/C11.vos Props/C11.vok Props/C11.required_vos: Props/C11.v Model/Dec.vos Model/Enc.vos Spec/Iana.vos Proofs/Enum.vos Proofs/C11.vos
Proofs/C13.vo Proofs/C13.glob Proofs/C13.v.beautified Proofs/C13.required_vo: Proofs/C13.v Model/Values.vo Model/Dec.vo
Proofs/C13.vio: Proofs/C13.v Model/Values.vio Model/Dec.vio
Proofs/C13.vos Proofs/C13.vok Proofs/C13.required_vos: Proofs/C13.v Model/Values.vos Model/Dec.vos
Props/C13.vo Props/C13.glob Props/C13.v.beautified Props/C13.required_vo: Props/C13.v Model/Values.vo Model/Dec.vo Proofs/C13.vo
Props/C13.vio: Props/C13.v Model/Values.vio Model/Dec.vio Proofs/C13.vio
Props/C13.vos Props/C13.vok Props/C13.required_vos: Props/C13.v Model/Values.vos Model/Dec.vos Proofs/C13.vos
