//! Canon trees -> library values, through the public API only.
//!
//! Every failure is a `BUILD-ERR` reason (a plain string).

use crate::canon::Tree;
use dns_message_parser::question::{QClass, QType, Question};
use dns_message_parser::rr::edns::{Cookie, EDNSOption, Padding, ECS};
use dns_message_parser::rr::*;
use dns_message_parser::{Dns, DomainName, Flags, Label, Opcode, RCode};
use std::collections::BTreeSet;
use std::convert::TryFrom;
use std::net::{Ipv4Addr, Ipv6Addr};

pub type B<T> = Result<T, String>;

// ---------------------------------------------------------------------------
// Scalars
// ---------------------------------------------------------------------------

pub fn num(t: &Tree, what: &str) -> B<u64> {
    match t {
        Tree::Num(n) => Ok(*n),
        other => Err(format!("{}: expected NUM, found {}", what, other.describe())),
    }
}

pub fn u8_of(t: &Tree, what: &str) -> B<u8> {
    u8::try_from(num(t, what)?).map_err(|_| format!("{}: does not fit u8", what))
}

pub fn u16_of(t: &Tree, what: &str) -> B<u16> {
    u16::try_from(num(t, what)?).map_err(|_| format!("{}: does not fit u16", what))
}

pub fn u32_of(t: &Tree, what: &str) -> B<u32> {
    u32::try_from(num(t, what)?).map_err(|_| format!("{}: does not fit u32", what))
}

pub fn bool_of(t: &Tree, what: &str) -> B<bool> {
    match num(t, what)? {
        0 => Ok(false),
        1 => Ok(true),
        n => Err(format!("{}: boolean must be 0 or 1, found {}", what, n)),
    }
}

pub fn bytes_of<'a>(t: &'a Tree, what: &str) -> B<&'a [u8]> {
    match t {
        Tree::Hex(h) => Ok(h),
        other => Err(format!("{}: expected HEX, found {}", what, other.describe())),
    }
}

pub fn string_of(t: &Tree, what: &str) -> B<String> {
    String::from_utf8(bytes_of(t, what)?.to_vec()).map_err(|_| format!("{}: not UTF-8", what))
}

pub fn node<'a>(t: &'a Tree, tag: &str) -> B<&'a [Tree]> {
    match t {
        Tree::Node(found, items) if found == tag => Ok(items),
        other => Err(format!("expected ({} ...), found {}", tag, other.describe())),
    }
}

/// Exactly `n` items.
pub fn arity<'a>(items: &'a [Tree], n: usize, what: &str) -> B<&'a [Tree]> {
    if items.len() == n {
        Ok(items)
    } else {
        Err(format!("{}: expected {} items, found {}", what, n, items.len()))
    }
}

/// `(O)` or `(O HEX)`.
pub fn opt_bytes(t: &Tree, what: &str) -> B<Option<Vec<u8>>> {
    let items = node(t, "O")?;
    match items {
        [] => Ok(None),
        [one] => Ok(Some(bytes_of(one, what)?.to_vec())),
        _ => Err(format!("{}: (O ...) takes at most one item", what)),
    }
}

/// The items of an `(L ...)` list, each built with `f`; `(REP n t)` stands for
/// `n` copies of `t` (built once, cloned).
pub fn list<T: Clone>(t: &Tree, what: &str, f: impl Fn(&Tree) -> B<T>) -> B<Vec<T>> {
    let items = node(t, "L").map_err(|e| format!("{}: {}", what, e))?;
    let mut out = Vec::with_capacity(items.len());
    for item in items {
        match item {
            Tree::Node(tag, rep) if tag == "REP" => {
                let rep = arity(rep, 2, "REP")?;
                let n = num(&rep[0], "REP count")?;
                let n = usize::try_from(n).map_err(|_| "REP count too big".to_string())?;
                let v = f(&rep[1])?;
                out.reserve(n);
                for _ in 0..n {
                    out.push(v.clone());
                }
            }
            other => out.push(f(other)?),
        }
    }
    Ok(out)
}

/// A code point through the library's own `TryFrom`.
fn code8<E: TryFrom<u8>>(t: &Tree, what: &str) -> B<E> {
    let n = u8_of(t, what)?;
    E::try_from(n).map_err(|_| format!("{}: unsupported code {}", what, n))
}

fn code16<E: TryFrom<u16>>(t: &Tree, what: &str) -> B<E> {
    let n = u16_of(t, what)?;
    E::try_from(n).map_err(|_| format!("{}: unsupported code {}", what, n))
}

pub fn type_of(t: &Tree) -> B<Type> {
    code16(t, "Type")
}
pub fn class_of(t: &Tree) -> B<Class> {
    code16(t, "Class")
}
pub fn qtype_of(t: &Tree) -> B<QType> {
    code16(t, "QType")
}
pub fn qclass_of(t: &Tree) -> B<QClass> {
    code16(t, "QClass")
}

pub fn fixed<const N: usize>(t: &Tree, what: &str) -> B<[u8; N]> {
    <[u8; N]>::try_from(bytes_of(t, what)?).map_err(|_| format!("{}: expected {} octets", what, N))
}

pub fn ipv4_of(t: &Tree, what: &str) -> B<Ipv4Addr> {
    Ok(Ipv4Addr::from(fixed::<4>(t, what)?))
}

pub fn ipv6_of(t: &Tree, what: &str) -> B<Ipv6Addr> {
    Ok(Ipv6Addr::from(fixed::<16>(t, what)?))
}

/// family (1|2) + HEX of exactly 4|16 octets.
pub fn address_of(family: &Tree, octets: &Tree) -> B<Address> {
    match num(family, "family")? {
        1 => Ok(Address::Ipv4(ipv4_of(octets, "IPv4 address")?)),
        2 => Ok(Address::Ipv6(ipv6_of(octets, "IPv6 address")?)),
        n => Err(format!("family: must be 1 or 2, found {}", n)),
    }
}

// ---------------------------------------------------------------------------
// Names, flags, questions
// ---------------------------------------------------------------------------

pub fn label_of(t: &Tree) -> B<Label> {
    let text = string_of(t, "label")?;
    text.parse::<Label>()
        .map_err(|e| format!("label rejected: {:?}", e))
}

pub fn name_of(t: &Tree) -> B<DomainName> {
    let mut name = DomainName::default();
    for item in node(t, "N")? {
        name.append_label(label_of(item)?)
            .map_err(|e| format!("append_label rejected: {:?}", e))?;
    }
    Ok(name)
}

pub fn flags_of(t: &Tree) -> B<Flags> {
    let i = arity(node(t, "F")?, 9, "F")?;
    Ok(Flags {
        qr: bool_of(&i[0], "qr")?,
        opcode: code8::<Opcode>(&i[1], "Opcode")?,
        aa: bool_of(&i[2], "aa")?,
        tc: bool_of(&i[3], "tc")?,
        rd: bool_of(&i[4], "rd")?,
        ra: bool_of(&i[5], "ra")?,
        ad: bool_of(&i[6], "ad")?,
        cd: bool_of(&i[7], "cd")?,
        rcode: code8::<RCode>(&i[8], "RCode")?,
    })
}

pub fn question_of(t: &Tree) -> B<Question> {
    let i = arity(node(t, "Q")?, 3, "Q")?;
    Ok(Question {
        domain_name: name_of(&i[0])?,
        q_type: qtype_of(&i[1])?,
        q_class: qclass_of(&i[2])?,
    })
}

pub fn dns_of(t: &Tree) -> B<Dns> {
    let i = arity(node(t, "Dns")?, 6, "Dns")?;
    Ok(Dns {
        id: u16_of(&i[0], "id")?,
        flags: flags_of(&i[1])?,
        questions: list(&i[2], "questions", question_of)?,
        answers: list(&i[3], "answers", rr_of)?,
        authorities: list(&i[4], "authorities", rr_of)?,
        additionals: list(&i[5], "additionals", rr_of)?,
    })
}

// ---------------------------------------------------------------------------
// Validated pieces shared with the H cases
// ---------------------------------------------------------------------------

pub fn ecs_of(t: &Tree) -> B<ECS> {
    let i = arity(node(t, "ECS")?, 4, "ECS")?;
    let address = address_of(&i[0], &i[3])?;
    ECS::new(u8_of(&i[1], "source")?, u8_of(&i[2], "scope")?, address)
        .map_err(|e| format!("ECS::new rejected: {:?}", e))
}

pub fn cookie_of(t: &Tree) -> B<Cookie> {
    let i = arity(node(t, "COOKIE")?, 2, "COOKIE")?;
    Cookie::new(fixed::<8>(&i[0], "client cookie")?, opt_bytes(&i[1], "server cookie")?)
        .map_err(|e| format!("Cookie::new rejected: {:?}", e))
}

pub fn apitem_of(t: &Tree) -> B<APItem> {
    let i = arity(node(t, "I")?, 4, "I")?;
    let address = address_of(&i[0], &i[3])?;
    APItem::new(u8_of(&i[1], "prefix")?, bool_of(&i[2], "negation")?, address)
        .map_err(|e| format!("APItem::new rejected: {:?}", e))
}

fn option_of(t: &Tree) -> B<EDNSOption> {
    match t {
        Tree::Node(tag, _) if tag == "ECS" => Ok(EDNSOption::ECS(ecs_of(t)?)),
        Tree::Node(tag, _) if tag == "COOKIE" => Ok(EDNSOption::Cookie(cookie_of(t)?)),
        Tree::Node(tag, items) if tag == "PAD" => {
            let i = arity(items, 1, "PAD")?;
            Ok(EDNSOption::Padding(Padding(u16_of(&i[0], "PAD")?)))
        }
        other => Err(format!("unknown EDNS option {}", other.describe())),
    }
}

fn parameter_of(t: &Tree) -> B<ServiceParameter> {
    let (tag, items) = match t {
        Tree::Node(tag, items) => (tag.as_str(), items.as_slice()),
        other => return Err(format!("SvcParam: found {}", other.describe())),
    };
    Ok(match tag {
        "MAND" => ServiceParameter::MANDATORY {
            key_ids: items.iter().map(|k| u16_of(k, "MAND key")).collect::<B<_>>()?,
        },
        "ALPN" => ServiceParameter::ALPN {
            alpn_ids: items.iter().map(|a| string_of(a, "ALPN id")).collect::<B<_>>()?,
        },
        "NODEF" => {
            arity(items, 0, "NODEF")?;
            ServiceParameter::NO_DEFAULT_ALPN
        }
        "PORT" => ServiceParameter::PORT {
            port: u16_of(&arity(items, 1, "PORT")?[0], "PORT")?,
        },
        "V4" => ServiceParameter::IPV4_HINT {
            hints: items.iter().map(|h| ipv4_of(h, "V4 hint")).collect::<B<_>>()?,
        },
        "ECH" => ServiceParameter::ECH {
            config_list: bytes_of(&arity(items, 1, "ECH")?[0], "ECH")?.to_vec(),
        },
        "V6" => ServiceParameter::IPV6_HINT {
            hints: items.iter().map(|h| ipv6_of(h, "V6 hint")).collect::<B<_>>()?,
        },
        "PRIV" => {
            let i = arity(items, 2, "PRIV")?;
            ServiceParameter::PRIVATE {
                number: u16_of(&i[0], "PRIV number")?,
                wire_data: bytes_of(&i[1], "PRIV data")?.to_vec(),
            }
        }
        "K65535" => {
            arity(items, 0, "K65535")?;
            ServiceParameter::KEY_65535
        }
        other => return Err(format!("unknown SvcParam ({} ...)", other)),
    })
}

// ---------------------------------------------------------------------------
// Resource records
// ---------------------------------------------------------------------------

/// Cursor over the fields of a `(G ...)` rdata.
struct Fields<'a> {
    items: &'a [Tree],
    pos: usize,
}

impl<'a> Fields<'a> {
    fn next(&mut self, what: &str) -> B<&'a Tree> {
        let t = self
            .items
            .get(self.pos)
            .ok_or_else(|| format!("rdata: missing field {}", what))?;
        self.pos += 1;
        Ok(t)
    }
    fn u8(&mut self, what: &str) -> B<u8> {
        u8_of(self.next(what)?, what)
    }
    fn u16(&mut self, what: &str) -> B<u16> {
        u16_of(self.next(what)?, what)
    }
    fn u32(&mut self, what: &str) -> B<u32> {
        u32_of(self.next(what)?, what)
    }
    fn u64(&mut self, what: &str) -> B<u64> {
        num(self.next(what)?, what)
    }
    fn name(&mut self, what: &str) -> B<DomainName> {
        name_of(self.next(what)?).map_err(|e| format!("{}: {}", what, e))
    }
    fn vec(&mut self, what: &str) -> B<Vec<u8>> {
        Ok(bytes_of(self.next(what)?, what)?.to_vec())
    }
    fn string(&mut self, what: &str) -> B<String> {
        string_of(self.next(what)?, what)
    }
    fn end(&self) -> B<()> {
        if self.pos == self.items.len() {
            Ok(())
        } else {
            Err(format!("rdata: {} surplus fields", self.items.len() - self.pos))
        }
    }
}

pub fn rr_of(t: &Tree) -> B<RR> {
    let i = arity(node(t, "RR")?, 5, "RR")?;
    let ty = type_of(&i[0])?;
    let domain_name = name_of(&i[1])?;
    let class_num = u16_of(&i[2], "class")?;
    let ttl = u32_of(&i[3], "ttl")?;
    let rdata = &i[4];

    // The three structured types first.
    match ty {
        Type::OPT => {
            if !domain_name.is_root() || class_num != 0 || ttl != 0 {
                return Err("OPT: canon header must be (N) 0 0".to_string());
            }
            let o = arity(node(rdata, "OPT")?, 5, "OPT")?;
            return Ok(RR::OPT(OPT {
                requestor_payload_size: u16_of(&o[0], "requestor_payload_size")?,
                extend_rcode: u8_of(&o[1], "extend_rcode")?,
                version: u8_of(&o[2], "version")?,
                dnssec: bool_of(&o[3], "dnssec")?,
                edns_options: list(&o[4], "options", option_of)?,
            }));
        }
        Type::APL | Type::SVCB | Type::HTTPS | Type::A | Type::AAAA | Type::WKS => {
            if class_num != 1 {
                return Err(format!("{:?}: the record has no class field, canon class must be 1", ty));
            }
        }
        _ => {}
    }
    match ty {
        Type::APL => {
            let a = arity(node(rdata, "APL")?, 1, "APL")?;
            return Ok(RR::APL(APL {
                domain_name,
                ttl,
                apitems: list(&a[0], "apitems", apitem_of)?,
            }));
        }
        Type::SVCB | Type::HTTPS => {
            let s = arity(node(rdata, "SVCB")?, 3, "SVCB")?;
            let mut parameters = BTreeSet::new();
            for p in list(&s[2], "parameters", parameter_of)? {
                // A repeated key keeps the first (BTreeSet::insert semantics).
                parameters.insert(p);
            }
            let sb = ServiceBinding {
                name: domain_name,
                ttl,
                priority: u16_of(&s[0], "priority")?,
                target_name: name_of(&s[1])?,
                parameters,
                https: ty == Type::HTTPS,
            };
            return Ok(if ty == Type::HTTPS { RR::HTTPS(sb) } else { RR::SVCB(sb) });
        }
        _ => {}
    }

    let mut f = Fields {
        items: node(rdata, "G")?,
        pos: 0,
    };
    // `class` is only evaluated by the arms that have a class field.
    let class = || Class::try_from(class_num).map_err(|n| format!("Class: unsupported code {}", n));

    macro_rules! one_name {
        ($t:ident, $field:ident) => {
            RR::$t($t {
                domain_name,
                ttl,
                class: class()?,
                $field: f.name(stringify!($field))?,
            })
        };
    }
    macro_rules! data {
        ($t:ident) => {
            RR::$t($t {
                domain_name,
                ttl,
                class: class()?,
                data: f.vec("data")?,
            })
        };
    }
    macro_rules! pref_name {
        ($t:ident, $field:ident) => {
            RR::$t($t {
                domain_name,
                ttl,
                class: class()?,
                preference: f.u16("preference")?,
                $field: f.name(stringify!($field))?,
            })
        };
    }

    let rr = match ty {
        Type::A => RR::A(A {
            domain_name,
            ttl,
            ipv4_addr: Ipv4Addr::from(f.u32("ipv4_addr")?),
        }),
        Type::NS => one_name!(NS, ns_d_name),
        Type::MD => one_name!(MD, mad_name),
        Type::MF => one_name!(MF, mad_name),
        Type::CNAME => one_name!(CNAME, c_name),
        Type::SOA => RR::SOA(SOA {
            domain_name,
            ttl,
            class: class()?,
            m_name: f.name("m_name")?,
            r_name: f.name("r_name")?,
            serial: f.u32("serial")?,
            refresh: f.u32("refresh")?,
            retry: f.u32("retry")?,
            expire: f.u32("expire")?,
            min_ttl: f.u32("min_ttl")?,
        }),
        Type::MB => one_name!(MB, mad_name),
        Type::MG => one_name!(MG, mgm_name),
        Type::MR => one_name!(MR, new_name),
        Type::NULL => data!(NULL),
        Type::WKS => RR::WKS(WKS {
            domain_name,
            ttl,
            ipv4_addr: Ipv4Addr::from(f.u32("ipv4_addr")?),
            protocol: f.u8("protocol")?,
            bit_map: f.vec("bit_map")?,
        }),
        Type::PTR => one_name!(PTR, ptr_d_name),
        Type::HINFO => RR::HINFO(HINFO {
            domain_name,
            ttl,
            class: class()?,
            cpu: f.string("cpu")?,
            os: f.string("os")?,
        }),
        Type::MINFO => RR::MINFO(MINFO {
            domain_name,
            ttl,
            class: class()?,
            r_mail_bx: f.name("r_mail_bx")?,
            e_mail_bx: f.name("e_mail_bx")?,
        }),
        Type::MX => pref_name!(MX, exchange),
        Type::TXT => {
            let strings = list(f.next("strings")?, "strings", |s| string_of(s, "string"))?;
            RR::TXT(TXT {
                domain_name,
                ttl,
                class: class()?,
                strings: NonEmptyVec::try_from(strings)
                    .map_err(|_| "NonEmptyVec::try_from rejected: Empty".to_string())?,
            })
        }
        Type::RP => RR::RP(RP {
            domain_name,
            ttl,
            class: class()?,
            mbox_dname: f.name("mbox_dname")?,
            txt_dname: f.name("txt_dname")?,
        }),
        Type::AFSDB => RR::AFSDB(AFSDB {
            domain_name,
            ttl,
            class: class()?,
            subtype: code16::<AFSDBSubtype>(f.next("subtype")?, "AFSDBSubtype")?,
            hostname: f.name("hostname")?,
        }),
        Type::X25 => RR::X25(X25 {
            domain_name,
            ttl,
            class: class()?,
            psdn_address: PSDNAddress::try_from(f.string("psdn_address")?)
                .map_err(|e| format!("PSDNAddress::try_from rejected: {:?}", e))?,
        }),
        Type::ISDN => RR::ISDN(ISDN {
            domain_name,
            ttl,
            class: class()?,
            isdn_address: ISDNAddress::try_from(f.string("isdn_address")?)
                .map_err(|e| format!("ISDNAddress::try_from rejected: {:?}", e))?,
            sa: match opt_bytes(f.next("sa")?, "sa")? {
                None => None,
                Some(sa) => Some(
                    SA::try_from(String::from_utf8(sa).map_err(|_| "sa: not UTF-8".to_string())?)
                        .map_err(|e| format!("SA::try_from rejected: {:?}", e))?,
                ),
            },
        }),
        Type::RT => pref_name!(RT, intermediate_host),
        Type::NSAP => data!(NSAP),
        Type::PX => RR::PX(PX {
            domain_name,
            ttl,
            class: class()?,
            preference: f.u16("preference")?,
            map822: f.name("map822")?,
            mapx400: f.name("mapx400")?,
        }),
        Type::GPOS => RR::GPOS(GPOS {
            domain_name,
            ttl,
            class: class()?,
            longitude: f.string("longitude")?,
            latitude: f.string("latitude")?,
            altitude: f.string("altitude")?,
        }),
        Type::AAAA => RR::AAAA(AAAA {
            domain_name,
            ttl,
            ipv6_addr: ipv6_of(f.next("ipv6_addr")?, "ipv6_addr")?,
        }),
        Type::LOC => RR::LOC(LOC {
            domain_name,
            ttl,
            class: class()?,
            version: f.u8("version")?,
            size: f.u8("size")?,
            horiz_pre: f.u8("horiz_pre")?,
            vert_pre: f.u8("vert_pre")?,
            latitube: f.u32("latitube")?,
            longitube: f.u32("longitube")?,
            altitube: f.u32("altitube")?,
        }),
        Type::EID => data!(EID),
        Type::NIMLOC => data!(NIMLOC),
        Type::SRV => RR::SRV(SRV {
            domain_name,
            ttl,
            class: class()?,
            priority: f.u16("priority")?,
            weight: f.u16("weight")?,
            port: f.u16("port")?,
            target: f.name("target")?,
        }),
        Type::KX => pref_name!(KX, exchanger),
        Type::DNAME => one_name!(DNAME, target),
        Type::SSHFP => RR::SSHFP(SSHFP {
            domain_name,
            ttl,
            class: class()?,
            algorithm: code8::<SSHFPAlgorithm>(f.next("algorithm")?, "SSHFPAlgorithm")?,
            type_: code8::<SSHFPType>(f.next("type_")?, "SSHFPType")?,
            fp: f.vec("fp")?,
        }),
        Type::NID => RR::NID(NID {
            domain_name,
            ttl,
            class: class()?,
            preference: f.u16("preference")?,
            node_id: f.u64("node_id")?,
        }),
        Type::L32 => RR::L32(L32 {
            domain_name,
            ttl,
            class: class()?,
            preference: f.u16("preference")?,
            locator_32: f.u32("locator_32")?,
        }),
        Type::L64 => RR::L64(L64 {
            domain_name,
            ttl,
            class: class()?,
            preference: f.u16("preference")?,
            locator_64: f.u64("locator_64")?,
        }),
        Type::LP => pref_name!(LP, fqdn),
        Type::EUI48 => {
            let mut eui_48 = [0u8; 6];
            for b in eui_48.iter_mut() {
                *b = f.u8("eui_48")?;
            }
            RR::EUI48(EUI48 {
                domain_name,
                ttl,
                class: class()?,
                eui_48,
            })
        }
        Type::EUI64 => {
            let mut eui_64 = [0u8; 8];
            for b in eui_64.iter_mut() {
                *b = f.u8("eui_64")?;
            }
            RR::EUI64(EUI64 {
                domain_name,
                ttl,
                class: class()?,
                eui_64,
            })
        }
        Type::URI => RR::URI(URI {
            domain_name,
            ttl,
            class: class()?,
            priority: f.u16("priority")?,
            weight: f.u16("weight")?,
            uri: f.string("uri")?,
        }),
        Type::DNSKEY => {
            let flags = f.u16("flags")?;
            if flags & DNSKEY_ZERO_MASK != 0 {
                return Err(format!("DNSKEY: flags {} not expressible by the two booleans", flags));
            }
            RR::DNSKEY(DNSKEY {
                domain_name,
                ttl,
                class: class()?,
                zone_key_flag: flags & ZONE_KEY_FLAG != 0,
                secure_entry_point_flag: flags & SECURE_ENTRY_POINT_FLAG != 0,
                algorithm_type: code8::<AlgorithmType>(f.next("algorithm_type")?, "AlgorithmType")?,
                public_key: f.vec("public_key")?,
            })
        }
        Type::DS => RR::DS(DS {
            domain_name,
            ttl,
            class: class()?,
            key_tag: f.u16("key_tag")?,
            algorithm_type: code8::<AlgorithmType>(f.next("algorithm_type")?, "AlgorithmType")?,
            digest_type: code8::<DigestType>(f.next("digest_type")?, "DigestType")?,
            digest: f.vec("digest")?,
        }),
        Type::CAA => RR::CAA(CAA {
            domain_name,
            ttl,
            class: class()?,
            flags: f.u8("flags")?,
            tag: Tag::try_from(f.string("tag")?)
                .map_err(|e| format!("Tag::try_from rejected: {:?}", e))?,
            value: f.vec("value")?,
        }),
        other => return Err(format!("type {:?} has no RR variant", other)),
    };
    f.end()?;
    Ok(rr)
}
