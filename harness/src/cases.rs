//! The case kinds of docs/PROTOCOL.md: `D`, `E`, `T`, `H`, `X`, `R`.
//!
//! `run_line` maps one case line to exactly one output line. Every library
//! call happens inside `guard` (a `catch_unwind`), which turns a panic into a
//! `PANIC <message>` line.

use crate::build::{self, B};
use crate::canon::{hex_token, parse, parse_plain_hex, parse_seq, plain_hex, Tree};
use crate::print::{self, canon_of, name_canon, Printer, Words};
use bytes::Bytes;
use dns_message_parser::question::{QClass, QType, Question};
use dns_message_parser::rr::edns::{Cookie, EDNSOptionCode, ECS};
use dns_message_parser::rr::{
    AFSDBSubtype, APItem, AddressFamilyNumber, AlgorithmType, Class, DigestType, ISDNAddress,
    NonEmptyVec, PSDNAddress, SSHFPAlgorithm, SSHFPType, Tag, Type, RR, SA,
};
use dns_message_parser::{
    verif, DecodeResult, Dns, DomainName, EncodeError, Flags, Label, Opcode, RCode,
};
use std::collections::hash_map::DefaultHasher;
use std::collections::HashSet;
use std::convert::TryFrom;
use std::fmt::{Debug, Display};
use std::hash::{Hash, Hasher};
use std::panic::{catch_unwind, AssertUnwindSafe};
use std::sync::Arc;

// ---------------------------------------------------------------------------
// Plumbing
// ---------------------------------------------------------------------------

fn panic_message(payload: Box<dyn std::any::Any + Send>) -> String {
    let msg = if let Some(s) = payload.downcast_ref::<&'static str>() {
        (*s).to_string()
    } else if let Some(s) = payload.downcast_ref::<String>() {
        s.clone()
    } else {
        "non-string panic payload".to_string()
    };
    msg.replace(['\n', '\r'], " ")
}

/// Run `f`; a panic becomes the `PANIC` line.
fn guard(f: impl FnOnce() -> String) -> String {
    match catch_unwind(AssertUnwindSafe(f)) {
        Ok(line) => line,
        Err(payload) => format!("PANIC {}", panic_message(payload)),
    }
}

fn bad(why: impl Display) -> String {
    format!("BAD-CASE {}", why).replace(['\n', '\r'], " ")
}

fn build_err(why: impl Display) -> String {
    format!("BUILD-ERR {}", why).replace(['\n', '\r'], " ")
}

/// First space-separated word and the remainder (without the separator).
fn split_word(s: &str) -> (&str, &str) {
    match s.find(' ') {
        Some(i) => (&s[..i], &s[i + 1..]),
        None => (s, ""),
    }
}

pub fn run_line(line: &str) -> String {
    let (kind, rest) = split_word(line);
    match kind {
        "D" => d_case(rest),
        "W" => w_case(rest),
        "A" => a_case(rest),
        "E" => e_case(rest),
        "T" => guard(|| t_case(rest)),
        "H" => guard(|| h_case(rest)),
        "X" => guard(|| x_case(rest)),
        "R" => r_case(rest),
        "" => bad("empty line"),
        other => bad(format!("unknown case kind {}", other)),
    }
}

// ---------------------------------------------------------------------------
// W: verdict and value only (compared with the reference decoder of the Coq development)
// ---------------------------------------------------------------------------

fn w_case(rest: &str) -> String {
    let line = d_case(rest);
    if let Some(body) = line.strip_prefix("OK ") {
        match body.find(" cost=") {
            Some(i) => format!("OK {}", &body[..i]),
            None => line,
        }
    } else if line.starts_with("ERR ") {
        "REJECT".to_string()
    } else {
        line
    }
}

// ---------------------------------------------------------------------------
// A <entry> <prefix-hex|-> <k>: all strings prefix ++ s with |s| = k (k <= 2), in-process; prints the
// outcome counts and an FNV-1a digest of the D lines (without the cost field), so that two runners can
// be compared on 65,536 inputs per case
// ---------------------------------------------------------------------------

fn fnv1a(h: &mut u64, bytes: &[u8]) {
    for b in bytes {
        *h ^= *b as u64;
        *h = h.wrapping_mul(0x0000_0100_0000_01b3);
    }
}

fn strip_cost(line: &str) -> String {
    match line.find(" cost=") {
        None => line.to_string(),
        Some(i) => {
            let rest = &line[i + 6..];
            let j = rest.find(' ').map(|j| i + 6 + j).unwrap_or(line.len());
            format!("{}{}", &line[..i], &line[j..])
        }
    }
}

fn a_case(rest: &str) -> String {
    let (entry, rest) = split_word(rest);
    let (hex, k) = split_word(rest);
    let prefix = match parse_plain_hex(hex) {
        Ok(b) => b,
        Err(e) => return bad(e),
    };
    let k: u32 = match k.parse() {
        Ok(k) if k <= 2 => k,
        _ => return bad("A needs k <= 2"),
    };
    let total: u32 = 256u32.pow(k);
    let (mut ok, mut err, mut panic) = (0u32, 0u32, 0u32);
    let mut h: u64 = 0xcbf2_9ce4_8422_2325;
    for v in 0..total {
        let mut input = prefix.clone();
        for i in (0..k).rev() {
            input.push(((v >> (8 * i)) & 255) as u8);
        }
        let line = match run_d(entry, Bytes::from(input)) {
            Some(l) => l,
            None => return bad(format!("unknown D entry {}", entry)),
        };
        if line.starts_with("OK ") {
            ok += 1;
        } else if line.starts_with("ERR ") {
            err += 1;
        } else {
            panic += 1;
        }
        let view = if line.starts_with("PANIC") { "PANIC".to_string() } else { strip_cost(&line) };
        fnv1a(&mut h, view.as_bytes());
        fnv1a(&mut h, b"\n");
    }
    format!("ok={} err={} panic={} digest={:016x}", ok, err, panic, h)
}

// ---------------------------------------------------------------------------
// D
// ---------------------------------------------------------------------------

/// What the `D` case needs to know about one decode entry point.
struct Entry<T> {
    decode: fn(Bytes) -> DecodeResult<T>,
    canon: fn(&mut Printer, &T),
    acc: fn(&T) -> String,
    encode: fn(&T) -> Result<Vec<u8>, EncodeError>,
}

fn no_acc<T>(_: &T) -> String {
    "-".to_string()
}

fn d_generic<T: Clone + PartialEq + Debug + Display>(bytes: Bytes, e: &Entry<T>) -> String {
    guard(|| {
        // Arm the hook's octet budget so that a decoder loop becomes a PANIC line instead of a hang
        // (the proved bound is 545 * len, DESIGN.md C07).
        verif::reset(4096 * (bytes.len() as u64) + (1 << 20));
        let result = (e.decode)(bytes);
        let cost = verif::octets();
        verif::reset(u64::MAX);
        let v = match result {
            Ok(v) => v,
            Err(err) => return format!("ERR {} cost={}", print::decode_error(&err).join(" "), cost),
        };
        // The derived and hand-written trait impls must not panic on an accepted value.
        let copy = v.clone();
        if !(copy == v) {
            panic!("harness: clone() != value");
        }
        let _ = format!("{}", v);
        let _ = format!("{:?}", v);
        let canon = canon_of(false, |p| (e.canon)(p, &v));
        let acc = (e.acc)(&v);
        let (reenc, d2) = match (e.encode)(&v) {
            Err(err) => (format!("ERR:{}", print::encode_error(&err).join(":")), "-".to_string()),
            Ok(wire) => {
                let hex = plain_hex(&wire);
                let d2 = match (e.decode)(Bytes::from(wire)) {
                    Err(err) => format!("ERR:{}", print::decode_error(&err).join(":")),
                    Ok(v2) => {
                        let canon2 = canon_of(false, |p| (e.canon)(p, &v2));
                        if canon2 == canon
                            || canon_of(true, |p| (e.canon)(p, &v2))
                                == canon_of(true, |p| (e.canon)(p, &v))
                        {
                            "same".to_string()
                        } else {
                            format!("diff:{}", canon2)
                        }
                    }
                };
                (hex, d2)
            }
        };
        format!("OK {} cost={} acc={} reenc={} d2={}", canon, cost, acc, reenc, d2)
    })
}

macro_rules! code_entry {
    ($t:ty, $int:ty) => {
        Entry::<$t> {
            decode: <$t>::decode,
            canon: |p, v| crate::canon::push_num(p.out, *v as $int as u64),
            acc: no_acc,
            encode: |v| Ok(v.encode().to_vec()),
        }
    };
}

/// Run one `D` case on already decoded input bytes; `None` for an unknown entry.
fn run_d(entry: &str, bytes: Bytes) -> Option<String> {
    Some(match entry {
        "Dns" => d_generic(
            bytes,
            &Entry::<Dns> {
                decode: Dns::decode,
                canon: |p, v| p.dns(v),
                acc: print::dns_acc,
                encode: |v| v.encode().map(|b| b.to_vec()),
            },
        ),
        "Flags" => d_generic(
            bytes,
            &Entry::<Flags> {
                decode: Flags::decode,
                canon: |p, v| p.flags(v),
                acc: no_acc,
                encode: |v| Ok(v.encode().to_vec()),
            },
        ),
        "Question" => d_generic(
            bytes,
            &Entry::<Question> {
                decode: Question::decode,
                canon: |p, v| p.question(v),
                acc: no_acc,
                encode: |v| v.encode().map(|b| b.to_vec()),
            },
        ),
        "RR" => d_generic(
            bytes,
            &Entry::<RR> {
                decode: RR::decode,
                canon: |p, v| p.rr(v),
                acc: print::rr_acc,
                encode: |v| v.encode().map(|b| b.to_vec()),
            },
        ),
        "DomainName" => d_generic(
            bytes,
            &Entry::<DomainName> {
                decode: DomainName::decode,
                canon: |p, v| p.name(v),
                acc: no_acc,
                encode: |v| v.encode().map(|b| b.to_vec()),
            },
        ),
        "Type" => d_generic(bytes, &code_entry!(Type, u16)),
        "Class" => d_generic(bytes, &code_entry!(Class, u16)),
        "QType" => d_generic(bytes, &code_entry!(QType, u16)),
        "QClass" => d_generic(bytes, &code_entry!(QClass, u16)),
        _ => return None,
    })
}

fn d_case(rest: &str) -> String {
    let (entry, hex) = split_word(rest);
    let bytes = match parse_plain_hex(hex) {
        Ok(b) => b,
        Err(e) => return bad(e),
    };
    run_d(entry, Bytes::from(bytes)).unwrap_or_else(|| bad(format!("unknown D entry {}", entry)))
}

// ---------------------------------------------------------------------------
// E
// ---------------------------------------------------------------------------

/// A value built from canon for an `E` (or `R ... E`) case.
enum Value {
    Dns(Dns),
    Flags(Flags),
    Question(Question),
    RR(RR),
    Name(DomainName),
    Type(Type),
    Class(Class),
    QType(QType),
    QClass(QClass),
    /// Element `S`: encode through the record struct's own `encode()`.
    S(RR),
}

fn build_value(element: &str, t: &Tree) -> Option<B<Value>> {
    Some(match element {
        "Dns" => build::dns_of(t).map(Value::Dns),
        "Flags" => build::flags_of(t).map(Value::Flags),
        "Question" => build::question_of(t).map(Value::Question),
        "RR" => build::rr_of(t).map(Value::RR),
        "DomainName" => build::name_of(t).map(Value::Name),
        "Type" => build::type_of(t).map(Value::Type),
        "Class" => build::class_of(t).map(Value::Class),
        "QType" => build::qtype_of(t).map(Value::QType),
        "QClass" => build::qclass_of(t).map(Value::QClass),
        "S" => build::rr_of(t).map(Value::S),
        _ => return None,
    })
}

/// `None` = the record struct has no public `encode`.
fn struct_encode(rr: &RR) -> Option<Result<Vec<u8>, EncodeError>> {
    macro_rules! enc {
        ($r:ident) => {
            Some($r.encode().map(|b| b.to_vec()))
        };
    }
    match rr {
        RR::A(r) => enc!(r),
        RR::NS(r) => enc!(r),
        RR::MD(r) => enc!(r),
        RR::MF(r) => enc!(r),
        RR::CNAME(r) => enc!(r),
        RR::SOA(r) => enc!(r),
        RR::MB(r) => enc!(r),
        RR::MG(r) => enc!(r),
        RR::MR(r) => enc!(r),
        RR::NULL(r) => enc!(r),
        RR::WKS(r) => enc!(r),
        RR::PTR(r) => enc!(r),
        RR::HINFO(r) => enc!(r),
        RR::MINFO(r) => enc!(r),
        RR::MX(r) => enc!(r),
        RR::TXT(r) => enc!(r),
        RR::RP(r) => enc!(r),
        RR::AFSDB(r) => enc!(r),
        RR::X25(r) => enc!(r),
        RR::ISDN(r) => enc!(r),
        RR::RT(r) => enc!(r),
        RR::NSAP(r) => enc!(r),
        RR::PX(r) => enc!(r),
        RR::GPOS(r) => enc!(r),
        RR::AAAA(r) => enc!(r),
        RR::LOC(r) => enc!(r),
        RR::NIMLOC(r) => enc!(r),
        RR::SRV(r) => enc!(r),
        RR::KX(r) => enc!(r),
        RR::DNAME(r) => enc!(r),
        RR::SSHFP(r) => enc!(r),
        RR::URI(r) => enc!(r),
        RR::EID(r) => enc!(r),
        RR::OPT(_)
        | RR::APL(_)
        | RR::NID(_)
        | RR::L32(_)
        | RR::L64(_)
        | RR::LP(_)
        | RR::EUI48(_)
        | RR::EUI64(_)
        | RR::DS(_)
        | RR::DNSKEY(_)
        | RR::CAA(_)
        | RR::SVCB(_)
        | RR::HTTPS(_) => None,
    }
}

impl Value {
    fn encode(&self) -> Option<Result<Vec<u8>, EncodeError>> {
        Some(match self {
            Value::Dns(v) => v.encode().map(|b| b.to_vec()),
            Value::Flags(v) => Ok(v.encode().to_vec()),
            Value::Question(v) => v.encode().map(|b| b.to_vec()),
            Value::RR(v) => v.encode().map(|b| b.to_vec()),
            Value::Name(v) => v.encode().map(|b| b.to_vec()),
            Value::Type(v) => Ok(v.encode().to_vec()),
            Value::Class(v) => Ok(v.encode().to_vec()),
            Value::QType(v) => Ok(v.encode().to_vec()),
            Value::QClass(v) => Ok(v.encode().to_vec()),
            Value::S(v) => return struct_encode(v),
        })
    }

    fn canon(&self) -> String {
        canon_of(false, |p| match self {
            Value::Dns(v) => p.dns(v),
            Value::Flags(v) => p.flags(v),
            Value::Question(v) => p.question(v),
            Value::RR(v) | Value::S(v) => p.rr(v),
            Value::Name(v) => p.name(v),
            Value::Type(v) => crate::canon::push_num(p.out, *v as u16 as u64),
            Value::Class(v) => crate::canon::push_num(p.out, *v as u16 as u64),
            Value::QType(v) => crate::canon::push_num(p.out, *v as u16 as u64),
            Value::QClass(v) => crate::canon::push_num(p.out, *v as u16 as u64),
        })
    }
}

/// The `E` output line of an already built value.
fn encode_line(v: &Value) -> String {
    guard(|| match v.encode() {
        None => "NOENC".to_string(),
        Some(Ok(wire)) => format!("OK {}", plain_hex(&wire)),
        Some(Err(e)) => format!("ERR {}", print::encode_error(&e).join(" ")),
    })
}

/// Parse and build; `Err` is the complete output line (BAD-CASE, BUILD-ERR or PANIC).
fn prepare_e(rest: &str) -> Result<Value, String> {
    let (element, canon) = split_word(rest);
    let tree = parse(canon).map_err(bad)?;
    match catch_unwind(AssertUnwindSafe(|| build_value(element, &tree))) {
        Ok(Some(Ok(v))) => Ok(v),
        Ok(Some(Err(why))) => Err(build_err(why)),
        Ok(None) => Err(bad(format!("unknown E element {}", element))),
        Err(payload) => Err(format!("PANIC {}", panic_message(payload))),
    }
}

fn e_case(rest: &str) -> String {
    match prepare_e(rest) {
        Ok(v) => encode_line(&v),
        Err(line) => line,
    }
}

// ---------------------------------------------------------------------------
// T
// ---------------------------------------------------------------------------

macro_rules! sweep {
    ($e:ty, $int:ty) => {{
        let mut parts: Vec<String> = Vec::new();
        let mut broken: Option<$int> = None;
        for v in 0..=<$int>::MAX {
            match <$e>::try_from(v) {
                Ok(e) => {
                    if e as $int != v {
                        broken = Some(v);
                        break;
                    }
                    parts.push(format!("{}={:?}", v, e));
                }
                Err(back) => {
                    if back != v {
                        broken = Some(v);
                        break;
                    }
                }
            }
        }
        match broken {
            Some(v) => format!("BAD {}", v),
            None => parts.join(","),
        }
    }};
}

fn t_case(rest: &str) -> String {
    match rest {
        "Opcode" => sweep!(Opcode, u8),
        "RCode" => sweep!(RCode, u8),
        "Class" => sweep!(Class, u16),
        "Type" => sweep!(Type, u16),
        "QType" => sweep!(QType, u16),
        "QClass" => sweep!(QClass, u16),
        "EDNSOptionCode" => sweep!(EDNSOptionCode, u16),
        "AlgorithmType" => sweep!(AlgorithmType, u8),
        "DigestType" => sweep!(DigestType, u8),
        "SSHFPAlgorithm" => sweep!(SSHFPAlgorithm, u8),
        "SSHFPType" => sweep!(SSHFPType, u8),
        "AFSDBSubtype" => sweep!(AFSDBSubtype, u16),
        "AddressFamilyNumber" => sweep!(AddressFamilyNumber, u16),
        other => bad(format!("unknown T enum {}", other)),
    }
}

// ---------------------------------------------------------------------------
// H
// ---------------------------------------------------------------------------

enum Outcome {
    Ok,
    Err(Words),
    Skip,
}

fn outcome<E>(r: Result<(), E>, words: impl Fn(&E) -> Words) -> Outcome {
    match r {
        Ok(()) => Outcome::Ok,
        Err(e) => Outcome::Err(words(&e)),
    }
}

/// A constructor result: success replaces the held value, failure keeps it.
fn construct<S, E>(st: &mut Option<S>, r: Result<S, E>, words: impl Fn(&E) -> Words) -> Outcome {
    match r {
        Ok(v) => {
            *st = Some(v);
            Outcome::Ok
        }
        Err(e) => Outcome::Err(words(&e)),
    }
}

/// A setter: needs a held value.
fn with<S>(st: &mut Option<S>, f: impl FnOnce(&mut S) -> Outcome) -> Outcome {
    match st {
        Some(v) => f(v),
        None => Outcome::Skip,
    }
}

/// Apply the ops in order. `step` returns `Err` for a malformed op (BAD-CASE).
fn history<S>(
    ops: &[Tree],
    step: impl Fn(&mut Option<S>, &str, &[Tree]) -> B<Outcome>,
    show: impl Fn(&S) -> String,
) -> String {
    let mut st: Option<S> = None;
    let mut items = Vec::with_capacity(ops.len());
    for op in ops {
        let (tag, args) = match op {
            Tree::Node(tag, args) => (tag.as_str(), args.as_slice()),
            other => return bad(format!("H op must be a node, found {}", other.describe())),
        };
        let result = match step(&mut st, tag, args) {
            Ok(Outcome::Ok) => "ok".to_string(),
            Ok(Outcome::Err(words)) => format!("err {}", words.join(" ")),
            Ok(Outcome::Skip) => "skip".to_string(),
            Err(why) => return bad(format!("H op ({} ...): {}", tag, why)),
        };
        let state = match &st {
            Some(v) => show(v),
            None => "none".to_string(),
        };
        items.push(format!("{};{}", result, state));
    }
    items.join(" | ")
}

fn unknown_op<T>(tag: &str, n: usize) -> B<T> {
    Err(format!("unknown op or wrong arity ({} args) for {}", n, tag))
}

/// The `(try_from HEX)` types: one text constructor, state = the text back.
fn text_history<S, E>(
    ops: &[Tree],
    make: impl Fn(String) -> Result<S, E>,
    words: impl Fn(&E) -> Words,
    text: impl Fn(&S) -> &str,
) -> String {
    history(
        ops,
        |st: &mut Option<S>, tag, args| match (tag, args) {
            ("try_from", [h]) => Ok(construct(st, make(build::string_of(h, "text")?), &words)),
            _ => unknown_op(tag, args.len()),
        },
        |v| hex_token(text(v).as_bytes()),
    )
}

fn name_state(n: &DomainName) -> String {
    format!("{} len={}", name_canon(n), n.len())
}

fn h_case(rest: &str) -> String {
    let (ty, ops_text) = split_word(rest);
    let ops = match parse_seq(ops_text) {
        Ok(ops) => ops,
        Err(e) => return bad(e),
    };
    let ops = ops.as_slice();
    match ty {
        "ECS" => history(
            ops,
            |st: &mut Option<ECS>, tag, args| match (tag, args) {
                ("new", [src, scope, fam, hex]) => {
                    let (src, scope) = (build::u8_of(src, "src")?, build::u8_of(scope, "scope")?);
                    let address = build::address_of(fam, hex)?;
                    Ok(construct(st, ECS::new(src, scope, address), print::address_error))
                }
                ("set_src", [n]) => {
                    let n = build::u8_of(n, "src")?;
                    Ok(with(st, |v| outcome(v.set_source_prefix_length(n), print::address_error)))
                }
                ("set_scope", [n]) => {
                    let n = build::u8_of(n, "scope")?;
                    Ok(with(st, |v| outcome(v.set_scope_prefix_length(n), print::address_error)))
                }
                ("set_addr", [fam, hex]) => {
                    let address = build::address_of(fam, hex)?;
                    Ok(with(st, |v| outcome(v.set_address(address), print::address_error)))
                }
                _ => unknown_op(tag, args.len()),
            },
            |v| canon_of(false, |p| p.ecs(v)),
        ),
        "API" => history(
            ops,
            |st: &mut Option<APItem>, tag, args| match (tag, args) {
                ("new", [prefix, neg, fam, hex]) => {
                    let prefix = build::u8_of(prefix, "prefix")?;
                    let neg = build::bool_of(neg, "neg")?;
                    let address = build::address_of(fam, hex)?;
                    Ok(construct(st, APItem::new(prefix, neg, address), print::address_error))
                }
                ("set_prefix", [n]) => {
                    let n = build::u8_of(n, "prefix")?;
                    Ok(with(st, |v| outcome(v.set_prefix(n), print::address_error)))
                }
                ("set_addr", [fam, hex]) => {
                    let address = build::address_of(fam, hex)?;
                    Ok(with(st, |v| outcome(v.set_address(address), print::address_error)))
                }
                ("set_neg", [b]) => {
                    let b = build::bool_of(b, "neg")?;
                    Ok(with(st, |v| {
                        v.negation = b;
                        Outcome::Ok
                    }))
                }
                _ => unknown_op(tag, args.len()),
            },
            |v| canon_of(false, |p| p.apitem(v)),
        ),
        "COOKIE" => history(
            ops,
            |st: &mut Option<Cookie>, tag, args| match (tag, args) {
                ("new", [client, server]) => {
                    let client = build::fixed::<8>(client, "client cookie")?;
                    let server = build::opt_bytes(server, "server cookie")?;
                    Ok(construct(st, Cookie::new(client, server), print::cookie_error))
                }
                ("set_server", [server]) => {
                    let server = build::opt_bytes(server, "server cookie")?;
                    Ok(with(st, |v| outcome(v.set_server_cookie(server), print::cookie_error)))
                }
                ("set_client", [client]) => {
                    let client = build::fixed::<8>(client, "client cookie")?;
                    Ok(with(st, |v| {
                        v.client_cookie = client;
                        Outcome::Ok
                    }))
                }
                _ => unknown_op(tag, args.len()),
            },
            |v| canon_of(false, |p| p.cookie(v)),
        ),
        "LABEL" => history(
            ops,
            |st: &mut Option<Label>, tag, args| match (tag, args) {
                ("try_from", [h]) => {
                    let text = build::string_of(h, "label")?;
                    Ok(construct(st, Label::try_from(text), print::label_error))
                }
                ("from_str", [h]) => {
                    let text = build::string_of(h, "label")?;
                    Ok(construct(st, text.parse::<Label>(), print::label_error))
                }
                _ => unknown_op(tag, args.len()),
            },
            |v| hex_token(v.as_ref().as_bytes()),
        ),
        "NAME" => history(
            ops,
            |st: &mut Option<DomainName>, tag, args| match (tag, args) {
                ("default", []) => {
                    *st = Some(DomainName::default());
                    Ok(Outcome::Ok)
                }
                ("from_str", [h]) => {
                    let text = build::string_of(h, "name")?;
                    Ok(construct(st, text.parse::<DomainName>(), print::domain_name_error))
                }
                ("append", [h]) => {
                    let text = build::string_of(h, "label")?;
                    Ok(with(st, |v| match text.parse::<Label>() {
                        Err(e) => Outcome::Err(print::label_error(&e)),
                        Ok(label) => outcome(v.append_label(label), print::domain_name_error),
                    }))
                }
                ("decode", [h]) => {
                    let wire = build::bytes_of(h, "wire")?.to_vec();
                    Ok(construct(st, DomainName::decode(Bytes::from(wire)), print::decode_error))
                }
                _ => unknown_op(tag, args.len()),
            },
            name_state,
        ),
        "TXT" => history(
            ops,
            |st: &mut Option<NonEmptyVec<String>>, tag, args| match (tag, args) {
                ("try_from", [l]) => {
                    let strings = build::list(l, "strings", |s| build::string_of(s, "string"))?;
                    Ok(construct(st, NonEmptyVec::try_from(strings), |_: &()| {
                        vec!["Empty".to_string()]
                    }))
                }
                _ => unknown_op(tag, args.len()),
            },
            |v| {
                let items: Vec<String> = v.iter().map(|s| hex_token(s.as_bytes())).collect();
                if items.is_empty() {
                    "(L)".to_string()
                } else {
                    format!("(L {})", items.join(" "))
                }
            },
        ),
        "TAG" => text_history(ops, Tag::try_from, print::tag_error, |v: &Tag| v.as_ref()),
        "PSDN" => text_history(ops, PSDNAddress::try_from, print::psdn_error, |v: &PSDNAddress| v),
        "ISDNA" => text_history(ops, ISDNAddress::try_from, print::isdn_error, |v: &ISDNAddress| v),
        "SA" => text_history(ops, SA::try_from, print::isdn_error, |v: &SA| v),
        other => bad(format!("unknown H type {}", other)),
    }
}

// ---------------------------------------------------------------------------
// X
// ---------------------------------------------------------------------------

fn digest(n: &DomainName) -> u64 {
    let mut h = DefaultHasher::new();
    n.hash(&mut h);
    h.finish()
}

fn x_case(rest: &str) -> String {
    let (op, args_text) = split_word(rest);
    let args = match parse_seq(args_text) {
        Ok(a) => a,
        Err(e) => return bad(e),
    };
    match (op, args.as_slice()) {
        ("parse", [h]) => {
            let text = match build::string_of(h, "text") {
                Ok(t) => t,
                Err(e) => return bad(e),
            };
            match text.parse::<DomainName>() {
                Ok(n) => format!(
                    "OK {} len={} disp={}",
                    name_canon(&n),
                    n.len(),
                    hex_token(n.to_string().as_bytes())
                ),
                Err(e) => format!("ERR {}", print::domain_name_error(&e).join(" ")),
            }
        }
        ("eq", [a, b]) => {
            let (a, b) = match (build::name_of(a), build::name_of(b)) {
                (Ok(a), Ok(b)) => (a, b),
                (Err(e), _) | (_, Err(e)) => return build_err(e),
            };
            format!("eq={} hash_eq={}", (a == b) as u8, (digest(&a) == digest(&b)) as u8)
        }
        ("rt", [n]) => {
            let n = match build::name_of(n) {
                Ok(n) => n,
                Err(e) => return build_err(e),
            };
            let text = n.to_string();
            let back = match text.parse::<DomainName>() {
                Ok(m) => format!("OK {}", name_canon(&m)),
                Err(e) => format!("ERR:{}", print::domain_name_error(&e).join(":")),
            };
            format!("disp={} len={} back={}", hex_token(text.as_bytes()), n.len(), back)
        }
        _ => bad(format!("unknown X op {} with {} arguments", op, args.len())),
    }
}

// ---------------------------------------------------------------------------
// R
// ---------------------------------------------------------------------------

/// The shared input of a repeated case.
enum Job {
    D { entry: String, bytes: Bytes },
    E { value: Value },
}

impl Job {
    fn run(&self) -> String {
        match self {
            Job::D { entry, bytes } => {
                run_d(entry, bytes.clone()).unwrap_or_else(|| bad("unknown D entry"))
            }
            Job::E { value } => encode_line(value),
        }
    }

    /// What `unchanged` compares: the bytes, or the value's canon.
    fn snapshot(&self) -> Vec<u8> {
        match self {
            Job::D { bytes, .. } => bytes.to_vec(),
            Job::E { value } => guard(|| value.canon()).into_bytes(),
        }
    }
}

/// Values encoded between the repetitions of an `R` case on every second thread (see `r_case`).
const POISON_VALUES: [&str; 4] = [
    "RR (RR 65 (N x737663 x6578616d706c65 x6f7267) 1 300 (SVCB 1 (N x74 x6578616d706c65 x6f7267) (L (MAND 6 4 3 1) (ALPN x6832 x6833) (PORT 443) (V4 xc0000201 xc0000202) (V6 x00000000000000000000000000000001))))",
    "Dns (Dns 1 (F 0 0 0 0 0 0 0 0 0) (L) (L) (L (RR 2 (N x61 x62 x6578616d706c65 x6f7267) 1 0 (G (N x63 x62 x6578616d706c65 x6f7267))) (RR 2 (N x6578616d706c65 x6f7267) 1 0 (G (N x64 x4558414d504c45 x4f5247)))) (L))",
    "RR (RR 41 (N) 0 0 (OPT 1232 0 0 1 (L (COOKIE x0000000000000000 (O x00000000000000000000000000000000)) (PAD 31) (ECS 1 24 0 x0a010200))))",
    "RR (RR 42 (N x61706c) 1 5 (APL (L (I 1 24 1 x0a010200) (I 2 64 0 x20010db8000000000000000000000000))))",
];

/// Rejected inputs whose decoding visits many offsets before it fails (see `r_case`).
fn poison_inputs() -> Vec<(&'static str, Bytes)> {
    let mut out: Vec<(&'static str, Bytes)> = Vec::new();
    // stand-alone names: chains of 18 pointers (even offsets; odd offsets behind a 2-octet label), a loop
    for lead in [&b""[..], &b"\x02aa"[..]] {
        let mut b = lead.to_vec();
        let base = b.len();
        for k in 0..18usize {
            let t = (base + 2 * (k + 1)) as u16;
            b.extend_from_slice(&(0xC000u16 | t).to_be_bytes());
        }
        b.push(0);
        out.push(("DomainName", Bytes::from(b)));
    }
    out.push(("DomainName", Bytes::from_static(b"\xc0\x02\xc0\x00")));
    out.push(("DomainName", Bytes::from_static(b"\x01a\xc0\x04\xc0\x02")));
    // messages: the question name points at a chain of 18 pointers starting at `start`
    for start in [14usize, 15, 50, 51, 90, 91, 130, 131, 170, 171, 210, 211] {
        let mut b = vec![0u8; 260];
        b[5] = 1; // QDCOUNT = 1
        b[12..14].copy_from_slice(&(0xC000u16 | start as u16).to_be_bytes());
        for k in 0..18usize {
            let at = start + 2 * k;
            let t = (at + 2) as u16;
            b[at..at + 2].copy_from_slice(&(0xC000u16 | t).to_be_bytes());
        }
        out.push(("Dns", Bytes::from(b)));
    }
    out.push(("Dns", Bytes::from_static(b"\x00\x00\x00\x00\x00\x01\x00\x00\x00\x00\x00\x00\xc0\x0c\x00\x01\x00\x01")));
    out.push(("Dns", Bytes::from_static(b"\x00\x00\x00\x00\x00\x02\x00\x00\x00\x00\x00\x00\x01a\x00\x00\x01")));
    out
}

fn r_case(rest: &str) -> String {
    let (reps, rest) = split_word(rest);
    let (threads, inner) = split_word(rest);
    let (reps, threads) = match (reps.parse::<usize>(), threads.parse::<usize>()) {
        (Ok(r), Ok(t)) if r > 0 && t > 0 && t <= 1024 => (r, t),
        _ => return bad("R needs <reps> >= 1 and 1 <= <threads> <= 1024"),
    };
    let (kind, inner_rest) = split_word(inner);
    let job = match kind {
        "D" => {
            let (entry, hex) = split_word(inner_rest);
            let bytes = match parse_plain_hex(hex) {
                Ok(b) => Bytes::from(b),
                Err(e) => return bad(e),
            };
            const ENTRIES: [&str; 9] = [
                "Dns", "Flags", "Question", "RR", "DomainName", "Type", "Class", "QType", "QClass",
            ];
            if !ENTRIES.contains(&entry) {
                return bad(format!("unknown D entry {}", entry));
            }
            Job::D {
                entry: entry.to_string(),
                bytes,
            }
        }
        "E" => match prepare_e(inner_rest) {
            Ok(value) => Job::E { value },
            Err(line) if line.starts_with("BAD-CASE") => return line,
            // The value cannot be built: there is nothing to repeat.
            Err(line) => return format!("distinct=1 unchanged=1 first={}", line),
        },
        other => return bad(format!("R inner case must be D or E, found {}", other)),
    };
    let job = Arc::new(job);
    let before = job.snapshot();
    let poison = Arc::new(poison_inputs());
    // values encoded in between as well (a long `mandatory` list, several names, an OPT with options, APL items): state an
    // encoder keeps across calls -- a scratch buffer, a cache -- shows when a DIFFERENT value was encoded before
    let poison_e: Arc<Vec<Value>> = Arc::new(
        POISON_VALUES
            .iter()
            .filter_map(|c| prepare_e(c).ok())
            .collect(),
    );

    let handles: Vec<_> = (0..threads)
        .map(|idx| {
            let job = Arc::clone(&job);
            let poison = Arc::clone(&poison);
            let poison_e = Arc::clone(&poison_e);
            std::thread::spawn(move || {
                let mut distinct: HashSet<String> = HashSet::new();
                let mut first: Option<String> = None;
                for rep in 0..reps {
                    // "independent of what happened before on this thread": every second thread (a single thread: the
                    // second half of its repetitions) decodes a REJECTED input before each run -- pointer chains that
                    // fail after visiting many offsets, truncated messages.  State kept across calls (a thread-local
                    // or static that an error path forgets to reset) then shows as a second distinct result.
                    if (threads > 1 && idx % 2 == 1) || (threads == 1 && rep >= reps / 2) {
                        let (entry, bytes) = &poison[(rep + idx) % poison.len()];
                        let _ = run_d(entry, bytes.clone());
                        if !poison_e.is_empty() {
                            let _ = encode_line(&poison_e[(rep + idx) % poison_e.len()]);
                        }
                    }
                    let line = job.run();
                    if first.is_none() {
                        first = Some(line.clone());
                    }
                    if !distinct.contains(&line) {
                        distinct.insert(line);
                    }
                }
                (first.unwrap(), distinct)
            })
        })
        .collect();

    let mut distinct: HashSet<String> = HashSet::new();
    let mut first: Option<String> = None;
    for h in handles {
        let (f, d) = match h.join() {
            Ok(r) => r,
            Err(payload) => {
                let line = format!("PANIC {}", panic_message(payload));
                (line.clone(), std::iter::once(line).collect())
            }
        };
        if first.is_none() {
            first = Some(f);
        }
        distinct.extend(d);
    }
    let unchanged = job.snapshot() == before;
    format!(
        "distinct={} unchanged={} first={}",
        distinct.len(),
        unchanged as u8,
        first.unwrap()
    )
}
