//! Library values -> canon text, and library errors -> the protocol's error words.

use crate::canon::{push_bool, push_hex, push_num};
use dns_message_parser::question::Question;
use dns_message_parser::rr::edns::{Cookie, CookieError, EDNSOption, ECS};
use dns_message_parser::rr::{
    APItem, Address, AddressError, ISDNError, PSDNAddressError, ServiceBinding, ServiceParameter,
    TagError, ToType, Type, RR,
};
use dns_message_parser::{
    DecodeError, Dns, DomainName, DomainNameError, EncodeError, Flags, LabelError,
};

// ---------------------------------------------------------------------------
// Labels of a name
// ---------------------------------------------------------------------------

/// The octets of every label of `name`, case preserved.
///
/// `DomainName` has no public accessor for its labels and `Display` is
/// ambiguous (a label may contain dots), so the labels are read back from the
/// derived `Debug` output `DomainName([Label("..."), ...])`, undoing the
/// escapes of `<str as Debug>`. The result is cross-checked against `len()`.
pub fn labels_of(name: &DomainName) -> Vec<Vec<u8>> {
    if name.is_root() {
        return Vec::new();
    }
    let dbg = format!("{:?}", name);
    let mut labels = Vec::new();
    let mut chars = dbg.chars();
    while let Some(c) = chars.next() {
        if c != '"' {
            continue;
        }
        let mut label = String::new();
        loop {
            match chars.next() {
                None => panic!("harness: unterminated string in Debug of DomainName"),
                Some('"') => break,
                Some('\\') => match chars.next() {
                    Some('n') => label.push('\n'),
                    Some('r') => label.push('\r'),
                    Some('t') => label.push('\t'),
                    Some('0') => label.push('\0'),
                    Some('\\') => label.push('\\'),
                    Some('"') => label.push('"'),
                    Some('\'') => label.push('\''),
                    Some('u') => {
                        let mut v: u32 = 0;
                        assert_eq!(chars.next(), Some('{'), "harness: bad \\u escape");
                        loop {
                            match chars.next() {
                                Some('}') => break,
                                Some(h) => v = v * 16 + h.to_digit(16).expect("harness: bad \\u digit"),
                                None => panic!("harness: bad \\u escape"),
                            }
                        }
                        label.push(char::from_u32(v).expect("harness: bad \\u scalar"));
                    }
                    other => panic!("harness: unknown Debug escape {:?}", other),
                },
                Some(c) => label.push(c),
            }
        }
        labels.push(label.into_bytes());
    }
    let wire_len: usize = labels.iter().map(|l| l.len() + 1).sum();
    assert_eq!(wire_len, name.len(), "harness: Debug label extraction disagrees with len()");
    labels
}

// ---------------------------------------------------------------------------
// Canon printer
// ---------------------------------------------------------------------------

/// One field of a `(G ...)` rdata.
enum F<'a> {
    N(u64),
    H(&'a [u8]),
    D(&'a DomainName),
    L(Vec<&'a [u8]>),
    O(Option<&'a [u8]>),
}

pub struct Printer<'a> {
    pub out: &'a mut String,
    /// Lower-case A-Z inside label HEX (used for the `d2=` comparison only).
    pub fold_labels: bool,
}

fn address_octets(a: &Address) -> (u64, Vec<u8>) {
    match a {
        Address::Ipv4(v4) => (1, v4.octets().to_vec()),
        Address::Ipv6(v6) => (2, v6.octets().to_vec()),
    }
}

impl<'a> Printer<'a> {
    fn sp(&mut self) {
        self.out.push(' ');
    }
    fn open(&mut self, tag: &str) {
        self.out.push('(');
        self.out.push_str(tag);
    }
    fn close(&mut self) {
        self.out.push(')');
    }
    fn i_num(&mut self, n: u64) {
        self.sp();
        push_num(self.out, n);
    }
    fn i_bool(&mut self, b: bool) {
        self.sp();
        push_bool(self.out, b);
    }
    fn i_hex(&mut self, h: &[u8]) {
        self.sp();
        push_hex(self.out, h);
    }
    fn i_name(&mut self, n: &DomainName) {
        self.sp();
        self.name(n);
    }
    fn i_opt_hex(&mut self, o: Option<&[u8]>) {
        self.sp();
        self.open("O");
        if let Some(h) = o {
            self.i_hex(h);
        }
        self.close();
    }

    pub fn name(&mut self, n: &DomainName) {
        self.open("N");
        for mut label in labels_of(n) {
            if self.fold_labels {
                label.make_ascii_lowercase();
            }
            self.i_hex(&label);
        }
        self.close();
    }

    pub fn flags(&mut self, f: &Flags) {
        self.open("F");
        self.i_bool(f.qr);
        self.i_num(f.opcode as u8 as u64);
        self.i_bool(f.aa);
        self.i_bool(f.tc);
        self.i_bool(f.rd);
        self.i_bool(f.ra);
        self.i_bool(f.ad);
        self.i_bool(f.cd);
        self.i_num(f.rcode as u8 as u64);
        self.close();
    }

    pub fn question(&mut self, q: &Question) {
        self.open("Q");
        self.i_name(&q.domain_name);
        self.i_num(q.q_type as u16 as u64);
        self.i_num(q.q_class as u16 as u64);
        self.close();
    }

    pub fn dns(&mut self, d: &Dns) {
        self.open("Dns");
        self.i_num(d.id as u64);
        self.sp();
        self.flags(&d.flags);
        self.sp();
        self.open("L");
        for q in &d.questions {
            self.sp();
            self.question(q);
        }
        self.close();
        for section in [&d.answers, &d.authorities, &d.additionals] {
            self.sp();
            self.open("L");
            for r in section.iter() {
                self.sp();
                self.rr(r);
            }
            self.close();
        }
        self.close();
    }

    pub fn ecs(&mut self, e: &ECS) {
        let (fam, octets) = address_octets(e.get_address());
        self.open("ECS");
        self.i_num(fam);
        self.i_num(e.get_source_prefix_length() as u64);
        self.i_num(e.get_scope_prefix_length() as u64);
        self.i_hex(&octets);
        self.close();
    }

    pub fn cookie(&mut self, c: &Cookie) {
        self.open("COOKIE");
        self.i_hex(&c.client_cookie);
        self.i_opt_hex(c.get_server_cookie());
        self.close();
    }

    pub fn apitem(&mut self, i: &APItem) {
        let (fam, octets) = address_octets(i.get_address());
        self.open("I");
        self.i_num(fam);
        self.i_num(i.get_prefix() as u64);
        self.i_bool(i.negation);
        self.i_hex(&octets);
        self.close();
    }

    fn header(&mut self, ty: Type, name: &DomainName, class: u16, ttl: u32) {
        self.open("RR");
        self.i_num(ty as u16 as u64);
        self.i_name(name);
        self.i_num(class as u64);
        self.i_num(ttl as u64);
        self.sp();
    }

    fn plain(&mut self, ty: Type, name: &DomainName, class: u16, ttl: u32, fields: &[F]) {
        self.header(ty, name, class, ttl);
        self.open("G");
        for f in fields {
            match f {
                F::N(n) => self.i_num(*n),
                F::H(h) => self.i_hex(h),
                F::D(d) => self.i_name(d),
                F::L(items) => {
                    self.sp();
                    self.open("L");
                    for i in items {
                        self.i_hex(i);
                    }
                    self.close();
                }
                F::O(o) => self.i_opt_hex(*o),
            }
        }
        self.close();
        self.close();
    }

    fn svcb(&mut self, ty: Type, s: &ServiceBinding) {
        self.header(ty, &s.name, 1, s.ttl);
        self.open("SVCB");
        self.i_num(s.priority as u64);
        self.i_name(&s.target_name);
        self.sp();
        self.open("L");
        for p in &s.parameters {
            self.sp();
            match p {
                ServiceParameter::MANDATORY { key_ids } => {
                    self.open("MAND");
                    for k in key_ids {
                        self.i_num(*k as u64);
                    }
                }
                ServiceParameter::ALPN { alpn_ids } => {
                    self.open("ALPN");
                    for a in alpn_ids {
                        self.i_hex(a.as_bytes());
                    }
                }
                ServiceParameter::NO_DEFAULT_ALPN => self.open("NODEF"),
                ServiceParameter::PORT { port } => {
                    self.open("PORT");
                    self.i_num(*port as u64);
                }
                ServiceParameter::IPV4_HINT { hints } => {
                    self.open("V4");
                    for h in hints {
                        self.i_hex(&h.octets());
                    }
                }
                ServiceParameter::ECH { config_list } => {
                    self.open("ECH");
                    self.i_hex(config_list);
                }
                ServiceParameter::IPV6_HINT { hints } => {
                    self.open("V6");
                    for h in hints {
                        self.i_hex(&h.octets());
                    }
                }
                ServiceParameter::PRIVATE { number, wire_data } => {
                    self.open("PRIV");
                    self.i_num(*number as u64);
                    self.i_hex(wire_data);
                }
                ServiceParameter::KEY_65535 => self.open("K65535"),
            }
            self.close();
        }
        self.close();
        self.close();
        self.close();
    }

    pub fn rr(&mut self, rr: &RR) {
        use F::{D, H, L, N, O};
        macro_rules! one_name {
            ($t:ident, $r:ident, $f:ident) => {
                self.plain(Type::$t, &$r.domain_name, $r.class as u16, $r.ttl, &[D(&$r.$f)])
            };
        }
        macro_rules! data {
            ($t:ident, $r:ident) => {
                self.plain(Type::$t, &$r.domain_name, $r.class as u16, $r.ttl, &[H(&$r.data)])
            };
        }
        macro_rules! pref_name {
            ($t:ident, $r:ident, $f:ident) => {
                self.plain(
                    Type::$t,
                    &$r.domain_name,
                    $r.class as u16,
                    $r.ttl,
                    &[N($r.preference as u64), D(&$r.$f)],
                )
            };
        }
        macro_rules! g {
            ($t:ident, $r:ident, [$($f:expr),* $(,)?]) => {
                self.plain(Type::$t, &$r.domain_name, $r.class as u16, $r.ttl, &[$($f),*])
            };
        }
        match rr {
            RR::A(r) => self.plain(
                Type::A,
                &r.domain_name,
                1,
                r.ttl,
                &[N(u32::from(r.ipv4_addr) as u64)],
            ),
            RR::NS(r) => one_name!(NS, r, ns_d_name),
            RR::MD(r) => one_name!(MD, r, mad_name),
            RR::MF(r) => one_name!(MF, r, mad_name),
            RR::CNAME(r) => one_name!(CNAME, r, c_name),
            RR::SOA(r) => g!(SOA, r, [
                D(&r.m_name),
                D(&r.r_name),
                N(r.serial as u64),
                N(r.refresh as u64),
                N(r.retry as u64),
                N(r.expire as u64),
                N(r.min_ttl as u64),
            ]),
            RR::MB(r) => one_name!(MB, r, mad_name),
            RR::MG(r) => one_name!(MG, r, mgm_name),
            RR::MR(r) => one_name!(MR, r, new_name),
            RR::NULL(r) => data!(NULL, r),
            RR::WKS(r) => self.plain(
                Type::WKS,
                &r.domain_name,
                1,
                r.ttl,
                &[N(u32::from(r.ipv4_addr) as u64), N(r.protocol as u64), H(&r.bit_map)],
            ),
            RR::PTR(r) => one_name!(PTR, r, ptr_d_name),
            RR::HINFO(r) => g!(HINFO, r, [H(r.cpu.as_bytes()), H(r.os.as_bytes())]),
            RR::MINFO(r) => g!(MINFO, r, [D(&r.r_mail_bx), D(&r.e_mail_bx)]),
            RR::MX(r) => pref_name!(MX, r, exchange),
            RR::TXT(r) => g!(TXT, r, [L(r.strings.iter().map(|s| s.as_bytes()).collect())]),
            RR::RP(r) => g!(RP, r, [D(&r.mbox_dname), D(&r.txt_dname)]),
            RR::AFSDB(r) => g!(AFSDB, r, [N(r.subtype as u16 as u64), D(&r.hostname)]),
            RR::X25(r) => g!(X25, r, [H(r.psdn_address.as_bytes())]),
            RR::ISDN(r) => g!(ISDN, r, [
                H(r.isdn_address.as_bytes()),
                O(r.sa.as_ref().map(|sa| sa.as_bytes())),
            ]),
            RR::RT(r) => pref_name!(RT, r, intermediate_host),
            RR::NSAP(r) => data!(NSAP, r),
            RR::PX(r) => g!(PX, r, [N(r.preference as u64), D(&r.map822), D(&r.mapx400)]),
            RR::GPOS(r) => g!(GPOS, r, [
                H(r.longitude.as_bytes()),
                H(r.latitude.as_bytes()),
                H(r.altitude.as_bytes()),
            ]),
            RR::AAAA(r) => self.plain(
                Type::AAAA,
                &r.domain_name,
                1,
                r.ttl,
                &[H(&r.ipv6_addr.octets())],
            ),
            RR::LOC(r) => g!(LOC, r, [
                N(r.version as u64),
                N(r.size as u64),
                N(r.horiz_pre as u64),
                N(r.vert_pre as u64),
                N(r.latitube as u64),
                N(r.longitube as u64),
                N(r.altitube as u64),
            ]),
            RR::NIMLOC(r) => data!(NIMLOC, r),
            RR::SRV(r) => g!(SRV, r, [
                N(r.priority as u64),
                N(r.weight as u64),
                N(r.port as u64),
                D(&r.target),
            ]),
            RR::KX(r) => pref_name!(KX, r, exchanger),
            RR::DNAME(r) => one_name!(DNAME, r, target),
            RR::OPT(r) => {
                self.header(Type::OPT, &DomainName::default(), 0, 0);
                self.open("OPT");
                self.i_num(r.requestor_payload_size as u64);
                self.i_num(r.extend_rcode as u64);
                self.i_num(r.version as u64);
                self.i_bool(r.dnssec);
                self.sp();
                self.open("L");
                for o in &r.edns_options {
                    self.sp();
                    match o {
                        EDNSOption::ECS(e) => self.ecs(e),
                        EDNSOption::Cookie(c) => self.cookie(c),
                        EDNSOption::Padding(p) => {
                            self.open("PAD");
                            self.i_num(p.0 as u64);
                            self.close();
                        }
                    }
                }
                self.close();
                self.close();
                self.close();
            }
            RR::APL(r) => {
                self.header(Type::APL, &r.domain_name, 1, r.ttl);
                self.open("APL");
                self.sp();
                self.open("L");
                for i in &r.apitems {
                    self.sp();
                    self.apitem(i);
                }
                self.close();
                self.close();
                self.close();
            }
            RR::SSHFP(r) => g!(SSHFP, r, [
                N(r.algorithm as u8 as u64),
                N(r.type_ as u8 as u64),
                H(&r.fp),
            ]),
            RR::URI(r) => g!(URI, r, [
                N(r.priority as u64),
                N(r.weight as u64),
                H(r.uri.as_bytes()),
            ]),
            RR::EID(r) => data!(EID, r),
            RR::NID(r) => g!(NID, r, [N(r.preference as u64), N(r.node_id)]),
            RR::L32(r) => g!(L32, r, [N(r.preference as u64), N(r.locator_32 as u64)]),
            RR::L64(r) => g!(L64, r, [N(r.preference as u64), N(r.locator_64)]),
            RR::LP(r) => pref_name!(LP, r, fqdn),
            RR::EUI48(r) => {
                let f: Vec<F> = r.eui_48.iter().map(|b| N(*b as u64)).collect();
                self.plain(Type::EUI48, &r.domain_name, r.class as u16, r.ttl, &f)
            }
            RR::EUI64(r) => {
                let f: Vec<F> = r.eui_64.iter().map(|b| N(*b as u64)).collect();
                self.plain(Type::EUI64, &r.domain_name, r.class as u16, r.ttl, &f)
            }
            RR::DS(r) => g!(DS, r, [
                N(r.key_tag as u64),
                N(r.algorithm_type as u8 as u64),
                N(r.digest_type as u8 as u64),
                H(&r.digest),
            ]),
            RR::DNSKEY(r) => g!(DNSKEY, r, [
                N(r.get_flags() as u64),
                N(r.algorithm_type as u8 as u64),
                H(&r.public_key),
            ]),
            RR::CAA(r) => g!(CAA, r, [
                N(r.flags as u64),
                H(r.tag.as_ref().as_bytes()),
                H(&r.value),
            ]),
            RR::SVCB(r) => self.svcb(Type::SVCB, r),
            RR::HTTPS(r) => self.svcb(Type::HTTPS, r),
        }
    }
}

/// Run a printer method into a fresh string.
pub fn canon_of(fold_labels: bool, f: impl FnOnce(&mut Printer)) -> String {
    let mut out = String::new();
    let mut p = Printer {
        out: &mut out,
        fold_labels,
    };
    f(&mut p);
    out
}

pub fn name_canon(n: &DomainName) -> String {
    canon_of(false, |p| p.name(n))
}

// ---------------------------------------------------------------------------
// Accessors (the `acc=` field)
// ---------------------------------------------------------------------------

/// `to_type()` of the record struct inside the variant. DS, DNSKEY, EUI48 and
/// EUI64 do not implement `ToType`; for them the variant's own code is used.
pub fn rr_to_type(rr: &RR) -> Type {
    match rr {
        RR::A(r) => r.to_type(),
        RR::NS(r) => r.to_type(),
        RR::MD(r) => r.to_type(),
        RR::MF(r) => r.to_type(),
        RR::CNAME(r) => r.to_type(),
        RR::SOA(r) => r.to_type(),
        RR::MB(r) => r.to_type(),
        RR::MG(r) => r.to_type(),
        RR::MR(r) => r.to_type(),
        RR::NULL(r) => r.to_type(),
        RR::WKS(r) => r.to_type(),
        RR::PTR(r) => r.to_type(),
        RR::HINFO(r) => r.to_type(),
        RR::MINFO(r) => r.to_type(),
        RR::MX(r) => r.to_type(),
        RR::TXT(r) => r.to_type(),
        RR::RP(r) => r.to_type(),
        RR::AFSDB(r) => r.to_type(),
        RR::X25(r) => r.to_type(),
        RR::ISDN(r) => r.to_type(),
        RR::RT(r) => r.to_type(),
        RR::NSAP(r) => r.to_type(),
        RR::PX(r) => r.to_type(),
        RR::GPOS(r) => r.to_type(),
        RR::AAAA(r) => r.to_type(),
        RR::LOC(r) => r.to_type(),
        RR::NIMLOC(r) => r.to_type(),
        RR::SRV(r) => r.to_type(),
        RR::KX(r) => r.to_type(),
        RR::DNAME(r) => r.to_type(),
        RR::OPT(r) => r.to_type(),
        RR::APL(r) => r.to_type(),
        RR::SSHFP(r) => r.to_type(),
        RR::URI(r) => r.to_type(),
        RR::EID(r) => r.to_type(),
        RR::NID(r) => r.to_type(),
        RR::L32(r) => r.to_type(),
        RR::L64(r) => r.to_type(),
        RR::LP(r) => r.to_type(),
        RR::EUI48(_) => Type::EUI48,
        RR::EUI64(_) => Type::EUI64,
        RR::DS(_) => Type::DS,
        RR::DNSKEY(_) => Type::DNSKEY,
        RR::CAA(r) => r.to_type(),
        RR::SVCB(r) => r.to_type(),
        RR::HTTPS(r) => r.to_type(),
    }
}

/// `type:ttl:class`, `-` for `None`.
pub fn rr_acc(rr: &RR) -> String {
    let ttl = match rr.get_ttl() {
        Some(t) => t.to_string(),
        None => "-".to_string(),
    };
    let class = match rr.get_class() {
        Some(c) => (c as u16).to_string(),
        None => "-".to_string(),
    };
    format!("{}:{}:{}", rr_to_type(rr) as u16, ttl, class)
}

pub fn dns_acc(d: &Dns) -> String {
    let all: Vec<String> = d
        .answers
        .iter()
        .chain(d.authorities.iter())
        .chain(d.additionals.iter())
        .map(rr_acc)
        .collect();
    if all.is_empty() {
        "-".to_string()
    } else {
        all.join(",")
    }
}

// ---------------------------------------------------------------------------
// Errors
// ---------------------------------------------------------------------------

pub type Words = Vec<String>;

fn w0(a: &str) -> Words {
    vec![a.to_string()]
}
fn w1<T: ToString>(a: &str, n: T) -> Words {
    vec![a.to_string(), n.to_string()]
}
fn w2<T: ToString, U: ToString>(a: &str, n: T, m: U) -> Words {
    vec![a.to_string(), n.to_string(), m.to_string()]
}
fn nest(a: &str, mut inner: Words) -> Words {
    let mut v = vec![a.to_string()];
    v.append(&mut inner);
    v
}

pub fn label_error(e: &LabelError) -> Words {
    match e {
        LabelError::Empty => w0("Empty"),
        LabelError::Length(n) => w1("Length", n),
    }
}

pub fn domain_name_error(e: &DomainNameError) -> Words {
    match e {
        DomainNameError::DomainNameLength(n) => w1("DomainNameLength", n),
        DomainNameError::LabelError(l) => nest("LabelError", label_error(l)),
    }
}

pub fn address_error(e: &AddressError) -> Words {
    match e {
        AddressError::Ipv4Prefix(p) => w1("Ipv4Prefix", p),
        AddressError::Ipv4Mask(_, p) => w1("Ipv4Mask", p),
        AddressError::Ipv6Prefix(p) => w1("Ipv6Prefix", p),
        AddressError::Ipv6Mask(_, p) => w1("Ipv6Mask", p),
    }
}

pub fn cookie_error(e: &CookieError) -> Words {
    match e {
        CookieError::ServerCookieLength(n) => w1("ServerCookieLength", n),
    }
}

pub fn tag_error(e: &TagError) -> Words {
    match e {
        TagError::Empty => w0("Empty"),
        TagError::IllegalChar(_) => w0("IllegalChar"),
    }
}

pub fn isdn_error(e: &ISDNError) -> Words {
    match e {
        ISDNError::IllegalChar(_) => w0("IllegalChar"),
        ISDNError::IllegalCharSA(_) => w0("IllegalCharSA"),
    }
}

pub fn psdn_error(e: &PSDNAddressError) -> Words {
    match e {
        PSDNAddressError::IllegalChar(_) => w0("IllegalChar"),
    }
}

pub fn decode_error(e: &DecodeError) -> Words {
    use DecodeError as E;
    match e {
        E::NotEnoughBytes(a, b) => w2("NotEnoughBytes", a, b),
        E::TooManyBytes(a, b) => w2("TooManyBytes", a, b),
        E::DnsPacketTooBig(n) => w1("DnsPacketTooBig", n),
        E::Opcode(n) => w1("Opcode", n),
        E::ZNotZeroes(n) => w1("ZNotZeroes", n),
        E::RCode(n) => w1("RCode", n),
        E::Type(n) => w1("Type", n),
        E::Class(n) => w1("Class", n),
        E::QType(n) => w1("QType", n),
        E::QClass(n) => w1("QClass", n),
        E::Utf8Error(_) => w0("Utf8Error"),
        E::LabelError(l) => nest("LabelError", label_error(l)),
        E::DomainNameError(d) => nest("DomainNameError", domain_name_error(d)),
        E::NotYetImplemented(t) => w1("NotYetImplemented", *t as u16),
        E::FromHexError(_) => w0("FromHexError"),
        E::Offset(n) => w1("Offset", n),
        E::AClass(c) => w1("AClass", *c as u16),
        E::WKSClass(c) => w1("WKSClass", *c as u16),
        E::TXTEmpty => w0("TXTEmpty"),
        E::AFSDBSubtype(n) => w1("AFSDBSubtype", n),
        E::PSDNAddressError(_) => w0("PSDNAddressError"),
        E::ISDNError(i) => nest("ISDNError", isdn_error(i)),
        E::GPOS => w0("GPOS"),
        E::AAAAClass(c) => w1("AAAAClass", *c as u16),
        E::OPTDomainName(_) => w0("OPTDomainName"),
        E::OPTZero(n) => w1("OPTZero", n),
        E::EDNSOptionCode(n) => w1("EDNSOptionCode", n),
        E::AddressError(a) => nest("AddressError", address_error(a)),
        E::APLClass(c) => w1("APLClass", *c as u16),
        E::CookieError(c) => nest("CookieError", cookie_error(c)),
        E::EcsAddressNumber(n) => w1("EcsAddressNumber", n),
        E::EcsTooBigIpv4Address(n) => w1("EcsTooBigIpv4Address", n),
        E::EcsTooBigIpv6Address(n) => w1("EcsTooBigIpv6Address", n),
        E::CookieLength(n) => w1("CookieLength", n),
        E::SSHFPAlgorithm(n) => w1("SSHFPAlgorithm", n),
        E::SSHFPType(n) => w1("SSHFPType", n),
        E::AlgorithmType(n) => w1("AlgorithmType", n),
        E::DigestType(n) => w1("DigestType", n),
        E::DNSKEYZeroFlags(n) => w1("DNSKEYZeroFlags", n),
        E::DNSKEYProtocol(n) => w1("DNSKEYProtocol", n),
        E::MaxRecursion(n) => w1("MaxRecursion", n),
        E::EndlessRecursion(n) => w1("EndlessRecursion", n),
        E::RemainingBytes(n, _) => w1("RemainingBytes", n),
        E::PaddingZero(n) => w1("PaddingZero", n),
        E::PaddingLength(n) => w1("PaddingLength", n),
        E::TagError(t) => nest("TagError", tag_error(t)),
        E::ECHLengthMismatch(a, b) => w2("ECHLengthMismatch", a, b),
        E::SVCBClass(c) => w1("SVCBClass", *c as u16),
        E::SVCBDuplicateKey(n) => w1("SVCBDuplicateKey", n),
    }
}

pub fn encode_error(e: &EncodeError) -> Words {
    use EncodeError as E;
    match e {
        E::String(n) => w1("String", n),
        E::Length(n) => w1("Length", n),
        E::NotEnoughBytes(a, b) => w2("NotEnoughBytes", a, b),
        E::Compression(n) => w1("Compression", n),
        E::MaxRecursion(n) => w1("MaxRecursion", n),
        E::APLAddressLength(n) => w1("APLAddressLength", n),
    }
}
