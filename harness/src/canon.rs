//! The canonical value syntax ("canon") of docs/PROTOCOL.md:
//!
//! ```text
//! tree := NUM | HEX | '(' TAG tree* ')'
//! ```
//!
//! This module holds the tree type, its strict parser, and the low-level
//! helpers the printer uses (hex, numbers, separators).

use std::fmt::Write;

#[derive(Debug, Clone, PartialEq, Eq)]
pub enum Tree {
    Num(u64),
    Hex(Vec<u8>),
    Node(String, Vec<Tree>),
}

impl Tree {
    /// Short description used in BUILD-ERR / BAD-CASE messages.
    pub fn describe(&self) -> String {
        match self {
            Tree::Num(n) => format!("NUM {}", n),
            Tree::Hex(h) => format!("HEX of {} octets", h.len()),
            Tree::Node(tag, items) => format!("({} ...) with {} items", tag, items.len()),
        }
    }
}

// ---------------------------------------------------------------------------
// Parser
// ---------------------------------------------------------------------------

struct Parser<'a> {
    s: &'a [u8],
    pos: usize,
}

fn hex_digit(c: u8) -> Option<u8> {
    match c {
        b'0'..=b'9' => Some(c - b'0'),
        b'a'..=b'f' => Some(c - b'a' + 10),
        _ => None,
    }
}

impl<'a> Parser<'a> {
    fn peek(&self) -> Option<u8> {
        self.s.get(self.pos).copied()
    }

    fn tree(&mut self) -> Result<Tree, String> {
        match self.peek() {
            None => Err(format!("canon: unexpected end at {}", self.pos)),
            Some(b'(') => {
                self.pos += 1;
                let start = self.pos;
                while let Some(c) = self.peek() {
                    if c.is_ascii_alphanumeric() || c == b'_' {
                        self.pos += 1;
                    } else {
                        break;
                    }
                }
                if start == self.pos || !self.s[start].is_ascii_alphabetic() {
                    return Err(format!("canon: bad TAG at {}", start));
                }
                let tag = String::from_utf8(self.s[start..self.pos].to_vec()).unwrap();
                let mut items = Vec::new();
                loop {
                    match self.peek() {
                        Some(b')') => {
                            self.pos += 1;
                            return Ok(Tree::Node(tag, items));
                        }
                        Some(b' ') => {
                            self.pos += 1;
                            items.push(self.tree()?);
                        }
                        Some(c) => {
                            return Err(format!(
                                "canon: unexpected '{}' at {}",
                                (c as char).escape_default(),
                                self.pos
                            ))
                        }
                        None => return Err(format!("canon: missing ')' at {}", self.pos)),
                    }
                }
            }
            Some(b'x') => {
                self.pos += 1;
                let mut out = Vec::new();
                while let Some(hi) = self.peek().and_then(hex_digit) {
                    let lo = match self.s.get(self.pos + 1).copied().and_then(hex_digit) {
                        Some(lo) => lo,
                        None => return Err(format!("canon: odd HEX at {}", self.pos)),
                    };
                    out.push((hi << 4) | lo);
                    self.pos += 2;
                }
                Ok(Tree::Hex(out))
            }
            Some(b'0'..=b'9') => {
                let start = self.pos;
                while matches!(self.peek(), Some(b'0'..=b'9')) {
                    self.pos += 1;
                }
                let digits = &self.s[start..self.pos];
                if digits.len() > 1 && digits[0] == b'0' {
                    return Err(format!("canon: NUM with leading zero at {}", start));
                }
                let text = std::str::from_utf8(digits).unwrap();
                match text.parse::<u64>() {
                    Ok(n) => Ok(Tree::Num(n)),
                    Err(_) => Err(format!("canon: NUM too big at {}", start)),
                }
            }
            Some(c) => Err(format!(
                "canon: unexpected '{}' at {}",
                (c as char).escape_default(),
                self.pos
            )),
        }
    }
}

/// Parse exactly one tree covering the whole string.
pub fn parse(s: &str) -> Result<Tree, String> {
    let mut trees = parse_seq(s)?;
    if trees.len() == 1 {
        Ok(trees.pop().unwrap())
    } else {
        Err(format!("canon: expected one tree, found {}", trees.len()))
    }
}

/// Parse a sequence of trees separated by single spaces (possibly empty).
pub fn parse_seq(s: &str) -> Result<Vec<Tree>, String> {
    let mut p = Parser {
        s: s.as_bytes(),
        pos: 0,
    };
    let mut out = Vec::new();
    if p.s.is_empty() {
        return Ok(out);
    }
    loop {
        out.push(p.tree()?);
        match p.peek() {
            None => return Ok(out),
            Some(b' ') => p.pos += 1,
            Some(c) => {
                return Err(format!(
                    "canon: unexpected '{}' at {}",
                    (c as char).escape_default(),
                    p.pos
                ))
            }
        }
    }
}

// ---------------------------------------------------------------------------
// Printer helpers
// ---------------------------------------------------------------------------

const HEX: &[u8; 16] = b"0123456789abcdef";

/// Plain lower-case hex (no prefix).
pub fn push_plain_hex(out: &mut String, bytes: &[u8]) {
    out.reserve(bytes.len() * 2);
    for b in bytes {
        out.push(HEX[(b >> 4) as usize] as char);
        out.push(HEX[(b & 15) as usize] as char);
    }
}

/// Plain lower-case hex as used in case lines: `-` for the empty string.
pub fn plain_hex(bytes: &[u8]) -> String {
    if bytes.is_empty() {
        return "-".to_string();
    }
    let mut s = String::new();
    push_plain_hex(&mut s, bytes);
    s
}

/// Inverse of `plain_hex` (accepts `-`).
pub fn parse_plain_hex(s: &str) -> Result<Vec<u8>, String> {
    if s == "-" {
        return Ok(Vec::new());
    }
    let b = s.as_bytes();
    if b.is_empty() || b.len() % 2 != 0 {
        return Err("hex: empty or odd length".to_string());
    }
    let mut out = Vec::with_capacity(b.len() / 2);
    for pair in b.chunks(2) {
        match (hex_digit(pair[0]), hex_digit(pair[1])) {
            (Some(hi), Some(lo)) => out.push((hi << 4) | lo),
            _ => return Err("hex: bad digit".to_string()),
        }
    }
    Ok(out)
}

/// The HEX token: `x` followed by the digits.
pub fn push_hex(out: &mut String, bytes: &[u8]) {
    out.push('x');
    push_plain_hex(out, bytes);
}

pub fn hex_token(bytes: &[u8]) -> String {
    let mut s = String::new();
    push_hex(&mut s, bytes);
    s
}

pub fn push_num(out: &mut String, n: u64) {
    let _ = write!(out, "{}", n);
}

pub fn push_bool(out: &mut String, b: bool) {
    out.push(if b { '1' } else { '0' });
}

/// Render a tree back to text (used by the parser's own round-trip test).
#[allow(dead_code)]
pub fn render(t: &Tree, out: &mut String) {
    match t {
        Tree::Num(n) => push_num(out, *n),
        Tree::Hex(h) => push_hex(out, h),
        Tree::Node(tag, items) => {
            out.push('(');
            out.push_str(tag);
            for i in items {
                out.push(' ');
                render(i, out);
            }
            out.push(')');
        }
    }
}
