//! `harness <casefile> [<outfile>]`
//!
//! Reads one case per line (docs/PROTOCOL.md) and writes exactly one output
//! line per case, in order. The exit status is 0 whenever every line was
//! processed, whatever the lines say (PANIC and BAD-CASE lines included).

mod build;
mod canon;
mod cases;
mod print;

use std::fs::File;
use std::io::{self, BufWriter, Read, Write};
use std::process::ExitCode;

fn run(case_file: &str, out_file: Option<&str>) -> io::Result<()> {
    let mut raw = Vec::new();
    File::open(case_file)?.read_to_end(&mut raw)?;
    // Case files are ASCII; anything else ends up in a BAD-CASE line.
    let text = String::from_utf8_lossy(&raw);

    let sink: Box<dyn Write> = match out_file {
        Some(path) => Box::new(File::create(path)?),
        None => Box::new(io::stdout().lock()),
    };
    let mut out = BufWriter::with_capacity(1 << 20, sink);
    for line in text.lines() {
        let result = cases::run_line(line);
        out.write_all(result.as_bytes())?;
        out.write_all(b"\n")?;
        // one write per case: the checker watches the file grow (stall watchdog) and, when a runner dies or
        // hangs, knows from the number of complete lines which case it was working on
        out.flush()?;
    }
    out.flush()
}

fn main() -> ExitCode {
    // Library panics are reported on the case's own PANIC line; keep stderr quiet.
    std::panic::set_hook(Box::new(|_| {}));

    let args: Vec<String> = std::env::args().collect();
    if args.len() < 2 || args.len() > 3 {
        eprintln!("usage: harness <casefile> [<outfile>]");
        return ExitCode::from(2);
    }
    match run(&args[1], args.get(2).map(|s| s.as_str())) {
        Ok(()) => ExitCode::SUCCESS,
        Err(e) => {
            eprintln!("harness: {}", e);
            ExitCode::from(1)
        }
    }
}
